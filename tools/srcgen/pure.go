// pure.go: translates a whitelist of small pure Go functions of the repository into Gallina
// (coq/gen/Pure.v, module P), over the combinators of coq/Base/GoSem.v.  The theorems of
// coq/Helpers/PureTie_*.v state that each regenerated definition equals the hand-written model.
//
// Supported subset (everything else is REFUSED: the function is replaced by
// `Definition <name>_unrecognised : GoSem.unrecognised := ...`, so that its tie theorem no longer compiles):
//
//	func      F(p T, ...) R | F(...) (R1, R2) | F(...) (r R, ...) | (r *S) M(...) R | (r S) M(...) R      no variadics
//	          named results are local variables that start at their zero value; a bare `return` returns them
//	T, R      bool | []byte | uint8 | byte | uint32 | uint64 | int | error (result only)
//	          | S | *S (receiver only) | interface type of the root package (parameter only, modelled by "is nil")
//	          | *pkg.V (parameter only): V a struct of the root package of which fields are only read ("view" record)
//	          | a named integer type (type T int) of the same or of the root package
//	          where S is a struct of the same package whose fields have the scalar types above
//	stmt      x := e | x = e | x op= e | x++ | s[i] = e | s[i] op= e     (s a local made by make([]byte, n))
//	          | x, y := e1, e2 | x, y = e1, e2   (all right-hand sides are evaluated before any variable is bound)
//	          | var x, y T | var x T = e | var x = e | v.f = e | v.f op= e   (v a local struct VALUE, not a pointer)
//	          | if [x := e;] c { ... } [else { ... } | else if ...]
//	          | switch { case c1, c2: ... default: ... } | switch x { case A, B: ... }   (x integer or bool; no init,
//	                no fallthrough, break only as the last statement of a clause) = the if / else-if chain
//	          | for i := a; i < e; i++ { ... }     (a, e panic-free int expressions without i; the body assigns no
//	                variable declared outside it, hence e is invariant; no break / continue)
//	          | for i := range s | for i, b := range s | for _, b := range s   (s a []byte variable, same body rules)
//	          | return e, ...
//	expr      x | literal int | true | false | nil (error result) | package constant / []byte variable / errors.New variable
//	          | len(e) | e[i] | e[lo:hi] | e[:hi] | e[lo:] | e[:] | make([]byte, n) | []byte(stringConstant)
//	          | bytes.Equal(a, b) | bytes.HasPrefix(a, b) | bytes.HasSuffix(a, b) | bytes.Compare(a, b) == 0 | != 0
//	          | check.IfNil(interfaceParameter)
//	          | F(args) | pkg.F(args): F a plain function (no receiver) of a translated package that is itself
//	                translatable -- the whitelist below is the list of ROOTS, callees are translated on demand
//	                (recursion is refused; the Gallina name of a callee must not collide with the vocabulary)
//	          | append(a, b...) on []byte (VALUE of the result only)
//	          | big.NewInt(k).SetUint64(e).Bytes() | new(big.Int).SetUint64(e).Bytes() | []byte{e, ...}
//	          | S{} | S{f: e, ...} | v.f | p.f (p *S) | !e | e && e | e || e (right operand evaluated conditionally)
//	          | e == e | != | < | <= | > | >= | e + e | - | * | e & e | e | e (unsigned)
//
// Types are inferred by a small checker below; an expression whose type it cannot determine is refused.
package main

import (
	"fmt"
	"go/ast"
	"go/parser"
	"go/token"
	"go/types"
	"math/big"
	"os"
	"path/filepath"
	"sort"
	"strconv"
	"strings"
)

type gkind int

const (
	kNone gkind = iota
	kBool
	kBytes
	kBytesList // [][]byte, only under len
	kU8
	kU32
	kU64
	kInt
	kUntyped // untyped integer constant expression
	kStr     // string constant (only under len and []byte(...))
	kStruct
	kPtr
	kIface
	kError
	kNil
)

type gtype struct {
	k    gkind
	name string // struct name for kStruct / kPtr; qualified name of a named integer type
}

func (g gtype) isInt() bool { return g.k == kU8 || g.k == kU32 || g.k == kU64 || g.k == kInt }
func (g gtype) unsigned() bool {
	return g.k == kU8 || g.k == kU32 || g.k == kU64
}
func (g gtype) String() string {
	switch g.k {
	case kBool:
		return "bool"
	case kBytes:
		return "[]byte"
	case kBytesList:
		return "[][]byte"
	case kU8:
		return "uint8"
	case kU32:
		return "uint32"
	case kU64:
		return "uint64"
	case kInt:
		return "int"
	case kUntyped:
		return "untyped integer constant"
	case kStr:
		return "string constant"
	case kStruct:
		return g.name
	case kPtr:
		return "*" + g.name
	case kIface:
		return "interface"
	case kError:
		return "error"
	case kNil:
		return "nil"
	}
	return "?"
}
func (g gtype) coq() string {
	switch g.k {
	case kBool, kIface:
		return "bool"
	case kBytes:
		return "bytes"
	case kBytesList:
		return "(list bytes)"
	case kU8, kU32, kU64:
		return "N"
	case kInt:
		return "Z"
	case kStruct:
		return g.name
	case kPtr:
		return "(option " + g.name + ")"
	case kError:
		return "goerror"
	}
	return "UNSUPPORTED"
}
func (g gtype) arith() string {
	switch g.k {
	case kU8:
		return "u8"
	case kU32:
		return "u32"
	case kU64:
		return "u64"
	case kInt:
		return "int"
	}
	return ""
}

type purePkg struct {
	pi         *pkgInfo
	dir        string // relative to the repository root
	importPath string
	prefix     string                       // prefix of this package's constants in module C
	funcs      map[string]*ast.FuncDecl     // "Name" or "Recv.Name"
	funcFile   map[string]string            // same key -> file base name
	typeDecls  map[string]ast.Expr          // type name -> type expression
	declType   map[string]ast.Expr          // const / var name -> declared type (nil: none)
	isConst    map[string]bool              // declared with const
	imports    map[string]map[string]string // file base name -> local name -> import path
	localNames map[string]bool              // every package-level name (to detect shadowed builtins)
}

type whiteEntry struct {
	dir, file, recv, name string
}

// The whitelist.  Phase 1 of notes/tasks/puregen.md.
var pureWhitelist = []whiteEntry{
	{"", "address.go", "", "IsSystemAccountAddress"},
	{"", "address.go", "", "IsSmartContractAddress"},
	{"", "address.go", "", "IsEmptyAddress"},
	{"", "address.go", "", "IsMetachainIdentifier"},
	{"", "address.go", "", "IsSmartContractOnMetachain"},
	{"", "address.go", "", "IsAllowedToSaveUnderKey"},
	{"", "codeMetadata.go", "", "CodeMetadataFromBytes"},
	{"", "codeMetadata.go", "CodeMetadata", "ToBytes"},
	{"", "gasCost.go", "", "SafeSubUint64"},
	{"builtInFunctions", "esdtMetaData.go", "", "ESDTGlobalMetadataFromBytes"},
	{"builtInFunctions", "esdtMetaData.go", "ESDTGlobalMetadata", "ToBytes"},
	{"builtInFunctions", "esdtMetaData.go", "", "ESDTUserMetadataFromBytes"},
	{"builtInFunctions", "esdtMetaData.go", "ESDTUserMetadata", "ToBytes"},
	{"builtInFunctions", "changeOwnerAddress.go", "", "computeGasRemaining"},
	// phase 2
	{"builtInFunctions", "esdtTransfer.go", "", "mustVerifyPayable"},
	{"builtInFunctions", "esdtNFTCreate.go", "", "computeESDTNFTTokenKey"},
	{"builtInFunctions", "esdtNFTCreate.go", "", "getNonceKey"},
}

func (w whiteEntry) key() string {
	if w.recv != "" {
		return w.recv + "." + w.name
	}
	return w.name
}
func (w whiteEntry) coqName() string {
	if w.recv != "" {
		return w.recv + "_" + w.name
	}
	return w.name
}

type funcSig struct {
	params  []gtype
	results []gtype
}

type fnResult struct {
	ok   bool
	text string
	sig  funcSig
	why  string
}

type pureGen struct {
	repo     string
	modPath  string
	pkgs     map[string]*purePkg
	done     map[string]*fnResult // coq name -> result
	donePkg  map[string]string    // coq name -> directory of the package + key of the function it was made from
	busy     map[string]bool
	order    []string
	records  map[string]string // struct name -> Record text, or "" if the struct is not translatable
	recWhy   map[string]string
	recOrder []string
	recPkg   map[string]string
	views    map[string]*viewInfo
}

type refusal struct {
	pos token.Pos
	msg string
}

func readModulePath(repo string) string {
	data, err := os.ReadFile(filepath.Join(repo, "go.mod"))
	if err != nil {
		return ""
	}
	for _, l := range strings.Split(string(data), "\n") {
		l = strings.TrimSpace(l)
		if strings.HasPrefix(l, "module ") {
			return strings.TrimSpace(strings.TrimPrefix(l, "module "))
		}
	}
	return ""
}

// importedPackageName: the name under which an import without an explicit name is visible = the package name declared
// by the imported package.  Known exactly for packages of this module (their package clause is read); for the
// standard library it is the last path element; other modules are not used by any translated construct ("" = unknown).
func importedPackageName(repo, modPath, p string) string {
	if modPath != "" && (p == modPath || strings.HasPrefix(p, modPath+"/")) {
		dir := filepath.Join(repo, strings.TrimPrefix(strings.TrimPrefix(p, modPath), "/"))
		pkgs, err := parser.ParseDir(token.NewFileSet(), dir, func(fi os.FileInfo) bool {
			return !strings.HasSuffix(fi.Name(), "_test.go")
		}, parser.PackageClauseOnly)
		if err != nil || len(pkgs) != 1 {
			return ""
		}
		for name := range pkgs {
			return name
		}
	}
	first := p
	if i := strings.Index(p, "/"); i >= 0 {
		first = p[:i]
	}
	if !strings.Contains(first, ".") {
		return p[strings.LastIndex(p, "/")+1:]
	}
	return ""
}

func loadPurePkg(repo, modPath, dir, importPath, prefix string) *purePkg {
	pi := loadPkg(filepath.Join(repo, dir))
	pp := &purePkg{pi: pi, dir: dir, importPath: importPath, prefix: prefix,
		funcs: map[string]*ast.FuncDecl{}, funcFile: map[string]string{}, typeDecls: map[string]ast.Expr{},
		declType: map[string]ast.Expr{}, isConst: map[string]bool{}, imports: map[string]map[string]string{},
		localNames: map[string]bool{}}
	for fname, f := range pi.files {
		im := map[string]string{}
		for _, is := range f.Imports {
			p, err := strconv.Unquote(is.Path.Value)
			if err != nil {
				continue
			}
			local := ""
			if is.Name != nil {
				local = is.Name.Name
			} else {
				local = importedPackageName(repo, modPath, p)
			}
			if local != "" && local != "_" && local != "." {
				im[local] = p
			}
		}
		pp.imports[fname] = im
		for _, d := range f.Decls {
			switch x := d.(type) {
			case *ast.FuncDecl:
				key := x.Name.Name
				if x.Recv != nil && len(x.Recv.List) == 1 {
					rt := x.Recv.List[0].Type
					if st, ok := rt.(*ast.StarExpr); ok {
						rt = st.X
					}
					if id, ok := rt.(*ast.Ident); ok {
						key = id.Name + "." + x.Name.Name
					} else {
						continue
					}
				} else {
					pp.localNames[x.Name.Name] = true
				}
				pp.funcs[key] = x
				pp.funcFile[key] = fname
			case *ast.GenDecl:
				switch x.Tok {
				case token.TYPE:
					for _, sp := range x.Specs {
						ts := sp.(*ast.TypeSpec)
						pp.typeDecls[ts.Name.Name] = ts.Type
						pp.localNames[ts.Name.Name] = true
					}
				case token.CONST, token.VAR:
					var lastType ast.Expr
					for _, sp := range x.Specs {
						vs := sp.(*ast.ValueSpec)
						ty := vs.Type
						if x.Tok == token.CONST {
							if len(vs.Values) == 0 && vs.Type == nil {
								ty = lastType // implicit repetition repeats type and expression
							} else {
								lastType = vs.Type
							}
						}
						for _, nm := range vs.Names {
							pp.declType[nm.Name] = ty
							pp.isConst[nm.Name] = x.Tok == token.CONST
							pp.localNames[nm.Name] = true
						}
					}
				}
			}
		}
	}
	return pp
}

// ---------------------------------------------------------------------------------------------

type varInfo struct {
	typ   gtype
	fresh bool // made by make([]byte, n) and never aliased: index assignment allowed
}

type tr struct {
	g       *pureGen
	pp      *purePkg
	fname   string
	env     map[string]*varInfo
	binds   []string
	ntmp    int
	results []gtype
	freshOK int
	nsyn    int      // synthetic variables (switch tag, hidden range index): names with a ' cannot clash with Go identifiers
	named   []string // names of the named results, in order (nil: unnamed results)
}

func (t *tr) refuse(n ast.Node, format string, a ...interface{}) {
	panic(refusal{n.Pos(), fmt.Sprintf(format, a...)})
}

func (t *tr) tmp() string {
	t.ntmp++
	return fmt.Sprintf("t%d", t.ntmp)
}

func (t *tr) bind(m string) string {
	n := t.tmp()
	t.binds = append(t.binds, n+" <- "+m+" ;;")
	return n
}

func (t *tr) flush(ind string) string {
	var sb strings.Builder
	for _, b := range t.binds {
		sb.WriteString(ind + b + "\n")
	}
	t.binds = nil
	return sb.String()
}

func (t *tr) copyEnv() map[string]*varInfo {
	m := map[string]*varInfo{}
	for k, v := range t.env {
		c := *v
		m[k] = &c
	}
	return m
}

func vname(n string) string { return "v_" + n }

// parseType: the type expressions the translation understands.  ctx: "param", "result", "recv", "field".
func (t *tr) parseType(e ast.Expr, ctx string) gtype {
	switch x := e.(type) {
	case *ast.Ident:
		if _, shadow := t.pp.typeDecls[x.Name]; !shadow {
			switch x.Name {
			case "bool":
				return gtype{k: kBool}
			case "byte", "uint8":
				return gtype{k: kU8}
			case "uint32":
				return gtype{k: kU32}
			case "uint64":
				return gtype{k: kU64}
			case "int":
				return gtype{k: kInt}
			case "error":
				if ctx == "result" {
					return gtype{k: kError}
				}
			}
		}
		if td, ok := t.pp.typeDecls[x.Name]; ok {
			if _, ok := td.(*ast.StructType); ok && ctx != "field" && ctx != "viewfield" {
				t.g.record(t, t.pp, x.Name, e)
				return gtype{k: kStruct, name: x.Name}
			}
			if nt := namedInt(t.pp, x.Name); nt.k != kNone {
				return nt
			}
		}
	case *ast.ArrayType:
		if x.Len == nil {
			if id, ok := x.Elt.(*ast.Ident); ok && (id.Name == "byte" || id.Name == "uint8") {
				if _, shadow := t.pp.typeDecls[id.Name]; !shadow {
					return gtype{k: kBytes}
				}
			}
			if ctx == "viewfield" && isByteSliceType(x.Elt) {
				if _, shadow := t.pp.typeDecls["byte"]; !shadow {
					return gtype{k: kBytesList}
				}
			}
		}
	case *ast.StarExpr:
		if ctx == "recv" {
			if id, ok := x.X.(*ast.Ident); ok {
				if td, ok := t.pp.typeDecls[id.Name]; ok {
					if _, ok := td.(*ast.StructType); ok {
						t.g.record(t, t.pp, id.Name, e)
						return gtype{k: kPtr, name: id.Name}
					}
				}
			}
		}
		// *pkg.S, S a struct of the root package, as a parameter: a "view" record of the fields that are read
		if ctx == "param" {
			if se, ok := x.X.(*ast.SelectorExpr); ok {
				if id, ok := se.X.(*ast.Ident); ok && t.g.modPath != "" && t.pp.imports[t.fname][id.Name] == t.g.modPath && !t.pp.localNames[id.Name] {
					root := t.g.pkgs[""]
					if td, ok := root.typeDecls[se.Sel.Name]; ok {
						if _, ok := td.(*ast.StructType); ok {
							t.g.view(t, root, se.Sel.Name, e)
							return gtype{k: kPtr, name: se.Sel.Name}
						}
					}
				}
			}
		}
	case *ast.SelectorExpr:
		// a named integer type of the root package
		if id, ok := x.X.(*ast.Ident); ok && t.g.modPath != "" && t.pp.imports[t.fname][id.Name] == t.g.modPath && !t.pp.localNames[id.Name] {
			if nt := namedInt(t.g.pkgs[""], x.Sel.Name); nt.k != kNone {
				return nt
			}
		}
		// an interface type of the root package, as a parameter: modelled by "is nil"
		if ctx == "param" {
			if id, ok := x.X.(*ast.Ident); ok {
				if t.pp.imports[t.fname][id.Name] == t.g.modPath && t.g.modPath != "" {
					if td, ok := t.g.pkgs[""].typeDecls[x.Sel.Name]; ok {
						if _, ok := td.(*ast.InterfaceType); ok {
							return gtype{k: kIface}
						}
					}
				}
			}
		}
	}
	t.refuse(e, "type %s not supported as %s", types.ExprString(e), ctx)
	return gtype{}
}

// namedInt: `type T int` (or another basic integer type) declared in pp; values of T and of its underlying type do not mix
func namedInt(pp *purePkg, name string) gtype {
	td, ok := pp.typeDecls[name]
	if !ok {
		return gtype{}
	}
	id, ok := td.(*ast.Ident)
	if !ok {
		return gtype{}
	}
	if _, shadow := pp.typeDecls[id.Name]; shadow {
		return gtype{}
	}
	q := pp.importPath + "." + name
	switch id.Name {
	case "byte", "uint8":
		return gtype{k: kU8, name: q}
	case "uint32":
		return gtype{k: kU32, name: q}
	case "uint64":
		return gtype{k: kU64, name: q}
	case "int":
		return gtype{k: kInt, name: q}
	}
	return gtype{}
}

// A view: a struct of the root package that a translated function only READS through a pointer parameter.
// The generated Record has exactly the fields that the translated functions read (promoted fields of embedded
// structs included), so that the hand-written projection from the model's record names all of them.
type viewInfo struct {
	pp     *purePkg
	fields map[string]gtype
}

func (g *pureGen) view(t *tr, pp *purePkg, name string, at ast.Node) {
	if _, ok := g.records[name]; ok {
		t.refuse(at, "struct name %s is used by two packages", name)
	}
	if _, ok := g.views[name]; !ok {
		g.views[name] = &viewInfo{pp: pp, fields: map[string]gtype{}}
	}
}

// findField: Go's selector rule restricted to named fields and embedded struct values of the same package:
// the field at the shallowest depth; two candidates at that depth are refused
func (g *pureGen) findField(t *tr, pp *purePkg, sname, field string, at ast.Node) ast.Expr {
	level := []string{sname}
	seen := map[string]bool{}
	for depth := 0; depth < 8 && len(level) > 0; depth++ {
		var found []ast.Expr
		var next []string
		for _, sn := range level {
			if seen[sn] {
				continue
			}
			seen[sn] = true
			st, ok := pp.typeDecls[sn].(*ast.StructType)
			if !ok {
				t.refuse(at, "%s is not a struct", sn)
			}
			for _, f := range st.Fields.List {
				if len(f.Names) == 0 {
					id, ok := f.Type.(*ast.Ident)
					if !ok {
						t.refuse(at, "struct %s embeds %s (only embedded struct values of the same package)", sn, types.ExprString(f.Type))
					}
					if id.Name == field {
						t.refuse(at, "selector %s names an embedded struct", field)
					}
					next = append(next, id.Name)
					continue
				}
				for _, nm := range f.Names {
					if nm.Name == field {
						found = append(found, f.Type)
					}
				}
			}
		}
		if len(found) == 1 {
			return found[0]
		}
		if len(found) > 1 {
			t.refuse(at, "ambiguous selector %s", field)
		}
		level = next
	}
	t.refuse(at, "struct %s has no field %s", sname, field)
	return nil
}

func (g *pureGen) viewField(t *tr, name, field string, at ast.Node) gtype {
	v := g.views[name]
	if ft, ok := v.fields[field]; ok {
		return ft
	}
	fe := g.findField(t, v.pp, name, field, at)
	sub := &tr{g: g, pp: v.pp}
	ft := sub.parseType(fe, "viewfield")
	switch ft.k {
	case kBool, kBytes, kBytesList, kU8, kU32, kU64, kInt:
	default:
		t.refuse(at, "field %s of type %s", field, ft)
	}
	v.fields[field] = ft
	return ft
}

// record: the generated Record of a struct type (fields of scalar types only)
func (g *pureGen) record(t *tr, pp *purePkg, name string, at ast.Node) {
	if _, ok := g.views[name]; ok {
		t.refuse(at, "struct name %s is used by two packages", name)
	}
	if txt, ok := g.records[name]; ok {
		if g.recPkg[name] != pp.dir {
			t.refuse(at, "struct name %s is declared in two packages", name)
		}
		if txt == "" {
			t.refuse(at, "struct %s: %s", name, g.recWhy[name])
		}
		return
	}
	g.recPkg[name] = pp.dir
	st := pp.typeDecls[name].(*ast.StructType)
	var fields []string
	fail := func(why string) {
		g.records[name] = ""
		g.recWhy[name] = why
		t.refuse(at, "struct %s: %s", name, why)
	}
	for _, f := range st.Fields.List {
		if len(f.Names) == 0 {
			fail("embedded field")
		}
		ft := gtype{}
		func() {
			defer func() {
				if r := recover(); r != nil {
					if _, ok := r.(refusal); ok {
						ft = gtype{}
						return
					}
					panic(r)
				}
			}()
			ft = t.parseType(f.Type, "field")
		}()
		if ft.k == kNone || ft.k == kError {
			fail("field type " + types.ExprString(f.Type) + " not supported")
		}
		for _, nm := range f.Names {
			fields = append(fields, fmt.Sprintf("%s_%s : %s", name, nm.Name, ft.coq()))
		}
	}
	if len(fields) == 0 {
		fail("no fields")
	}
	g.records[name] = fmt.Sprintf("Record %s := { %s }.", name, strings.Join(fields, "; "))
	g.recOrder = append(g.recOrder, name)
}

func (t *tr) structFields(name string) ([]string, map[string]gtype) {
	st := t.pp.typeDecls[name].(*ast.StructType)
	var names []string
	types := map[string]gtype{}
	for _, f := range st.Fields.List {
		ft := t.parseType(f.Type, "field")
		for _, nm := range f.Names {
			names = append(names, nm.Name)
			types[nm.Name] = ft
		}
	}
	return names, types
}

func zeroValue(g gtype) string {
	switch g.k {
	case kBool:
		return "false"
	case kBytes:
		return "(@nil byte)"
	case kU8, kU32, kU64:
		return "0%N"
	case kInt:
		return "0%Z"
	}
	return "UNSUPPORTED"
}

// zeroOf: the zero value of a variable of type ty ("each element of such a variable or value is set to the zero
// value for its type: false for booleans, 0 for numeric types, ... nil for ... slices"; a struct: every field)
func (t *tr) zeroOf(ty gtype, at ast.Node) string {
	switch ty.k {
	case kBool, kBytes, kU8, kU32, kU64, kInt:
		return zeroValue(ty)
	case kError:
		return "go_nil"
	case kStruct:
		names, types := t.structFields(ty.name)
		var fs []string
		for _, n := range names {
			fs = append(fs, fmt.Sprintf("%s_%s := %s", ty.name, n, zeroValue(types[n])))
		}
		return "{| " + strings.Join(fs, "; ") + " |}"
	}
	t.refuse(at, "zero value of type %s", ty)
	return ""
}

// pkgObject: a package-level constant or variable usable in an expression
func (t *tr) pkgObject(pp *purePkg, name string, at ast.Node) (gtype, string) {
	ex, ok := pp.pi.consts[name]
	if !ok {
		t.refuse(at, "identifier %s is not a local variable, a constant or a package variable", name)
	}
	cname := "C." + pp.prefix + name
	// error variable: errors.New("...")
	if call, ok := ex.(*ast.CallExpr); ok && !pp.isConst[name] {
		if se, ok := call.Fun.(*ast.SelectorExpr); ok && se.Sel.Name == "New" && len(call.Args) == 1 {
			if id, ok := se.X.(*ast.Ident); ok && id.Name == "errors" {
				if bl, ok := call.Args[0].(*ast.BasicLit); ok && bl.Kind == token.STRING && pp.declType[name] == nil {
					return gtype{k: kError}, fmt.Sprintf("(go_err \"%s\"%%string)", name)
				}
			}
		}
	}
	v, ok := eval(pp.pi, ex, pp.pi.iota[name])
	if !ok {
		t.refuse(at, "value of %s is not a constant the generator can evaluate", name)
	}
	var declared gtype
	if dt := pp.declType[name]; dt != nil {
		sub := &tr{g: t.g, pp: pp, fname: t.fname}
		declared = func() (r gtype) {
			defer func() {
				if x := recover(); x != nil {
					if _, ok := x.(refusal); ok {
						r = gtype{}
						return
					}
					panic(x)
				}
			}()
			return sub.parseType(dt, "const")
		}()
		if declared.k == kNone {
			// a named integer type (e.g. CallType) or string: only usable through its underlying kind below
			if id, ok := dt.(*ast.Ident); ok && id.Name == "string" {
				declared = gtype{k: kStr}
			} else {
				t.refuse(at, "declared type %s of %s not supported", types.ExprString(dt), name)
			}
		}
	}
	switch v.kind {
	case "int":
		if declared.k == kNone {
			if !pp.isConst[name] {
				t.refuse(at, "integer variable %s without a declared type", name)
			}
			return gtype{k: kUntyped}, cname
		}
		if !declared.isInt() {
			t.refuse(at, "constant %s: integer value with declared type %s", name, declared)
		}
		return declared, cname
	case "str":
		if declared.k != kNone && declared.k != kStr {
			t.refuse(at, "constant %s: string value with declared type %s", name, declared)
		}
		return gtype{k: kStr}, cname
	case "bytes":
		if declared.k != kNone && declared.k != kBytes {
			t.refuse(at, "variable %s: []byte value with declared type %s", name, declared)
		}
		return gtype{k: kBytes}, cname
	}
	t.refuse(at, "value of %s has no supported kind", name)
	return gtype{}, ""
}

func (t *tr) isLocal(name string) bool { _, ok := t.env[name]; return ok }

// selector of an imported package: returns the import path, or "" if x is not a package name here
func (t *tr) pkgOf(x ast.Expr) string {
	id, ok := x.(*ast.Ident)
	if !ok || t.isLocal(id.Name) || t.pp.localNames[id.Name] {
		return ""
	}
	return t.pp.imports[t.fname][id.Name]
}

// callee: the function a call expression names, if it is a plain function (no receiver) declared in one of the
// translated packages.  It is translated on demand (g.translate): the whitelist is the list of roots only.
func (t *tr) callee(x *ast.CallExpr) (*whiteEntry, *purePkg) {
	plain := func(pp *purePkg, name string) (*whiteEntry, *purePkg) {
		if fd, ok := pp.funcs[name]; ok && fd.Recv == nil {
			return &whiteEntry{dir: pp.dir, file: pp.funcFile[name], name: name}, pp
		}
		return nil, nil
	}
	switch f := x.Fun.(type) {
	case *ast.Ident:
		if t.isLocal(f.Name) {
			return nil, nil
		}
		return plain(t.pp, f.Name)
	case *ast.SelectorExpr:
		p := t.pkgOf(f.X)
		if p == "" {
			return nil, nil
		}
		for _, pp := range t.g.pkgs {
			if pp.importPath == p && ast.IsExported(f.Sel.Name) {
				return plain(pp, f.Sel.Name)
			}
		}
	}
	return nil, nil
}

// The identifiers that the generated text uses from outside module P (Base/GoSem.v, Base/Bytes.v, the standard
// library) and the keywords of Gallina: a Go function of one of these names would shadow the vocabulary for the
// definitions that follow it in module P, so it is refused.  Variables are v_<name>, temporaries t<number>.
var reservedCoqNames = func() map[string]bool {
	m := map[string]bool{}
	for _, n := range strings.Fields(`
		go_ret go_bind go_len go_index go_slice go_slice_to go_slice_from go_make_bytes go_set_index go_append
		go_big_uint64_bytes go_bytes_lit go_deref go_nil go_err go_break go_continue go_for_from go_for_upto go_for_range
		goerror unrecognised Unrecognised GoSem GoNotations bytes_equal bytes_has_prefix bytes_has_suffix
		u8_add u8_sub u8_mul u32_add u32_sub u32_mul u64_add u64_sub u64_mul u_and u_or int_add int_sub int_mul wrap_int
		two63Z two64Z two64 two32 u64 u32 bytes byte b2n n2b beqb
		negb andb orb bool true false option Some None list nil cons length tt unit pair fst snd prod nat O S N Z
		N0 Npos Z0 Zpos Zneg positive xH xO xI List Bool String string EmptyString Ascii ascii C P EV Coq
		fun forall exists let in if then else match with end as at return fix cofix struct using where Type Set Prop SProp
		Definition Record Module End Import Export Require From Theorem Lemma Proof Qed Defined IF for`) {
		m[n] = true
	}
	return m
}()

func validCoqFunctionName(n string) bool {
	if n == "" || reservedCoqNames[n] || strings.HasPrefix(n, "v_") {
		return false
	}
	for i, c := range n {
		switch {
		case c >= 'a' && c <= 'z', c >= 'A' && c <= 'Z', c == '_':
		case c >= '0' && c <= '9' && i > 0:
		default:
			return false
		}
	}
	if n[0] == 't' && len(n) > 1 && strings.Trim(n[1:], "0123456789") == "" {
		return false // t<number>: the temporaries
	}
	return n != "_"
}

func (t *tr) builtin(x *ast.CallExpr) string {
	id, ok := x.Fun.(*ast.Ident)
	if !ok || t.isLocal(id.Name) || t.pp.localNames[id.Name] {
		return ""
	}
	switch id.Name {
	case "len", "make", "append":
		return id.Name
	}
	return ""
}

// bigUint64Bytes: the one use of math/big that is translated, big.NewInt(<literal>).SetUint64(e).Bytes() or
// new(big.Int).SetUint64(e).Bytes() (SetUint64 overwrites the value given to NewInt).  Returns e, or nil if x is not of this shape.
func (t *tr) bigUint64Bytes(x *ast.CallExpr) ast.Expr {
	s1, ok := x.Fun.(*ast.SelectorExpr)
	if !ok || s1.Sel.Name != "Bytes" || len(x.Args) != 0 {
		return nil
	}
	c2, ok := s1.X.(*ast.CallExpr)
	if !ok || len(c2.Args) != 1 || c2.Ellipsis != token.NoPos {
		return nil
	}
	s2, ok := c2.Fun.(*ast.SelectorExpr)
	if !ok || s2.Sel.Name != "SetUint64" {
		return nil
	}
	c3, ok := s2.X.(*ast.CallExpr)
	if !ok || len(c3.Args) != 1 || c3.Ellipsis != token.NoPos {
		return nil
	}
	// new(big.Int): "The zero value for an Int represents the value 0"; SetUint64 overwrites it as well
	if id, ok := c3.Fun.(*ast.Ident); ok && id.Name == "new" && !t.isLocal("new") && !t.pp.localNames["new"] {
		if se, ok := c3.Args[0].(*ast.SelectorExpr); ok && se.Sel.Name == "Int" && t.pkgOf(se.X) == "math/big" {
			return c2.Args[0]
		}
		return nil
	}
	s3, ok := c3.Fun.(*ast.SelectorExpr)
	if !ok || s3.Sel.Name != "NewInt" || t.pkgOf(s3.X) != "math/big" {
		return nil
	}
	if lit, ok := c3.Args[0].(*ast.BasicLit); !ok || lit.Kind != token.INT {
		return nil
	}
	return c2.Args[0]
}

// bytesCompare: e is the call bytes.Compare(a, b)
func (t *tr) bytesCompare(e ast.Expr) (ast.Expr, ast.Expr, bool) {
	for {
		p, ok := e.(*ast.ParenExpr)
		if !ok {
			break
		}
		e = p.X
	}
	call, ok := e.(*ast.CallExpr)
	if !ok || len(call.Args) != 2 || call.Ellipsis != token.NoPos {
		return nil, nil, false
	}
	se, ok := call.Fun.(*ast.SelectorExpr)
	if !ok || se.Sel.Name != "Compare" || t.pkgOf(se.X) != "bytes" {
		return nil, nil, false
	}
	return call.Args[0], call.Args[1], true
}

func isZeroLit(e ast.Expr) bool {
	for {
		p, ok := e.(*ast.ParenExpr)
		if !ok {
			break
		}
		e = p.X
	}
	lit, ok := e.(*ast.BasicLit)
	if !ok || lit.Kind != token.INT {
		return false
	}
	n, err := strconv.ParseUint(lit.Value, 0, 64)
	return err == nil && n == 0
}

// byteSlice: the type expression []byte / []uint8 where byte / uint8 is the predeclared type here
func (t *tr) byteSlice(e ast.Expr) bool {
	if !isByteSliceType(e) {
		return false
	}
	n := e.(*ast.ArrayType).Elt.(*ast.Ident).Name
	return !t.isLocal(n) && !t.pp.localNames[n]
}

func isByteSliceType(e ast.Expr) bool {
	at, ok := e.(*ast.ArrayType)
	if !ok || at.Len != nil {
		return false
	}
	id, ok := at.Elt.(*ast.Ident)
	return ok && (id.Name == "byte" || id.Name == "uint8")
}

// typeOf: static type of an expression (kUntyped for integer constant expressions)
func (t *tr) typeOf(e ast.Expr) gtype {
	switch x := e.(type) {
	case *ast.ParenExpr:
		return t.typeOf(x.X)
	case *ast.BasicLit:
		if x.Kind == token.INT {
			return gtype{k: kUntyped}
		}
		t.refuse(e, "literal %s", x.Value)
	case *ast.Ident:
		if v, ok := t.env[x.Name]; ok {
			return v.typ
		}
		if !t.pp.localNames[x.Name] {
			switch x.Name {
			case "true", "false":
				return gtype{k: kBool}
			case "nil":
				return gtype{k: kNil}
			}
		}
		ty, _ := t.pkgObject(t.pp, x.Name, x)
		return ty
	case *ast.SelectorExpr:
		if id, ok := x.X.(*ast.Ident); ok {
			if v, ok := t.env[id.Name]; ok {
				if _, isView := t.g.views[v.typ.name]; isView && v.typ.k == kPtr {
					return t.g.viewField(t, v.typ.name, x.Sel.Name, x)
				}
				if v.typ.k == kStruct || v.typ.k == kPtr {
					_, types := t.structFields(v.typ.name)
					if ft, ok := types[x.Sel.Name]; ok {
						return ft
					}
				}
				t.refuse(e, "selector %s on a value of type %s", x.Sel.Name, v.typ)
			}
			if p := t.pkgOf(x.X); p != "" {
				for _, pp := range t.g.pkgs {
					if pp.importPath == p {
						ty, _ := t.pkgObject(pp, x.Sel.Name, x)
						return ty
					}
				}
				t.refuse(e, "package %s is outside the translated packages", p)
			}
		}
		t.refuse(e, "selector expression %s", types.ExprString(e))
	case *ast.CallExpr:
		if t.byteSlice(x.Fun) && len(x.Args) == 1 {
			return gtype{k: kBytes}
		}
		switch t.builtin(x) {
		case "len":
			return gtype{k: kInt}
		case "make", "append":
			return gtype{k: kBytes}
		}
		if t.bigUint64Bytes(x) != nil {
			return gtype{k: kBytes}
		}
		if se, ok := x.Fun.(*ast.SelectorExpr); ok {
			p := t.pkgOf(se.X)
			if p == "bytes" && (se.Sel.Name == "Equal" || se.Sel.Name == "HasPrefix" || se.Sel.Name == "HasSuffix") {
				return gtype{k: kBool}
			}
			if p == t.g.modPath+"/check" && se.Sel.Name == "IfNil" {
				return gtype{k: kBool}
			}
		}
		if w, pp := t.callee(x); w != nil {
			r := t.g.translate(*w, pp)
			if !r.ok {
				t.refuse(e, "call of %s, which is not translated (%s)", w.coqName(), r.why)
			}
			if len(r.sig.results) != 1 {
				t.refuse(e, "call of %s with %d results inside an expression", w.coqName(), len(r.sig.results))
			}
			return r.sig.results[0]
		}
		t.refuse(e, "call of %s (not a supported builtin, not in the whitelist)", types.ExprString(x.Fun))
	case *ast.IndexExpr:
		if t.typeOfBase(x.X).k != kBytes {
			t.refuse(e, "index expression on a non-[]byte operand")
		}
		return gtype{k: kU8}
	case *ast.SliceExpr:
		if t.typeOfBase(x.X).k != kBytes {
			t.refuse(e, "slice expression on a non-[]byte operand")
		}
		return gtype{k: kBytes}
	case *ast.UnaryExpr:
		if x.Op == token.NOT {
			return gtype{k: kBool}
		}
		t.refuse(e, "unary operator %s", x.Op)
	case *ast.BinaryExpr:
		switch x.Op {
		case token.LAND, token.LOR, token.EQL, token.NEQ, token.LSS, token.LEQ, token.GTR, token.GEQ:
			return gtype{k: kBool}
		case token.ADD, token.SUB, token.MUL, token.AND, token.OR:
			return t.unify(x, x.X, x.Y)
		}
		t.refuse(e, "binary operator %s", x.Op)
	case *ast.CompositeLit:
		if id, ok := x.Type.(*ast.Ident); ok {
			ty := t.parseType(id, "literal")
			if ty.k == kStruct {
				return ty
			}
		}
		if x.Type != nil && t.byteSlice(x.Type) {
			return gtype{k: kBytes}
		}
		t.refuse(e, "composite literal of this type")
	}
	t.refuse(e, "expression form %T", e)
	return gtype{}
}

func (t *tr) typeOfBase(e ast.Expr) gtype {
	t.freshOK++
	defer func() { t.freshOK-- }()
	return t.typeOf(e)
}

// unify: the common operand type of a binary operation (kUntyped when both are constants)
func (t *tr) unify(at ast.Node, a, b ast.Expr) gtype {
	ta, tb := t.typeOf(a), t.typeOf(b)
	if ta.k == kUntyped {
		if tb.k == kUntyped || tb.isInt() {
			return tb
		}
	} else if tb.k == kUntyped {
		if ta.isInt() {
			return ta
		}
	} else if ta == tb {
		return ta
	}
	t.refuse(at, "operands of types %s and %s", ta, tb)
	return gtype{}
}

func intLit(n string, ty gtype) string {
	if ty.k == kInt {
		return n + "%Z"
	}
	return n + "%N"
}

// expr: Coq term of e at type want (want.k == kNone: whatever typeOf says, untyped constants as int).
// Operations that can panic are bound to temporaries in t.binds, in evaluation order.
func (t *tr) expr(e ast.Expr, want gtype) string {
	got := t.typeOf(e)
	target := got
	if got.k == kUntyped {
		if want.isInt() {
			target = want
		} else if want.k == kNone {
			target = gtype{k: kInt}
		} else {
			t.refuse(e, "integer constant where %s is expected", want)
		}
	} else if got.k == kNil {
		if want.k != kError {
			t.refuse(e, "nil where %s is expected", want)
		}
		return "go_nil"
	} else if want.k != kNone && got != want {
		t.refuse(e, "expression of type %s where %s is expected", got, want)
	}
	return t.emit(e, target)
}

// emit: e has static type ty, or is an untyped constant expression to be computed at the integer type ty
func (t *tr) emit(e ast.Expr, ty gtype) string {
	switch x := e.(type) {
	case *ast.ParenExpr:
		return t.emit(x.X, ty)
	case *ast.BasicLit:
		n, err := strconv.ParseUint(x.Value, 0, 64)
		if err != nil {
			t.refuse(e, "integer literal %s", x.Value)
		}
		return intLit(strconv.FormatUint(n, 10), ty)
	case *ast.Ident:
		if v, ok := t.env[x.Name]; ok {
			if v.fresh && t.freshOK == 0 {
				t.refuse(e, "variable %s (made by make and assigned by index) is used where it could be aliased", x.Name)
			}
			return vname(x.Name)
		}
		if !t.pp.localNames[x.Name] {
			switch x.Name {
			case "true", "false":
				return x.Name
			}
		}
		oty, term := t.pkgObject(t.pp, x.Name, x)
		return t.constAt(e, oty, term, ty)
	case *ast.SelectorExpr:
		id := x.X.(*ast.Ident) // typeOf has checked the shape
		if v, ok := t.env[id.Name]; ok {
			if v.typ.k == kPtr {
				d := t.bind("go_deref " + vname(id.Name))
				return fmt.Sprintf("(%s_%s %s)", v.typ.name, x.Sel.Name, d)
			}
			return fmt.Sprintf("(%s_%s %s)", v.typ.name, x.Sel.Name, vname(id.Name))
		}
		p := t.pkgOf(x.X)
		for _, pp := range t.g.pkgs {
			if pp.importPath == p {
				oty, term := t.pkgObject(pp, x.Sel.Name, x)
				return t.constAt(e, oty, term, ty)
			}
		}
	case *ast.CallExpr:
		return t.emitCall(x, ty)
	case *ast.IndexExpr:
		base := t.emitBase(x.X)
		idx := t.expr(x.Index, gtype{k: kInt})
		return t.bind(fmt.Sprintf("go_index %s %s", base, idx))
	case *ast.SliceExpr:
		if x.Slice3 {
			t.refuse(e, "three-index slice expression")
		}
		base := t.expr(x.X, gtype{k: kBytes})
		switch {
		case x.Low == nil && x.High == nil:
			return base
		case x.Low == nil:
			hi := t.expr(x.High, gtype{k: kInt})
			return t.bind(fmt.Sprintf("go_slice_to %s %s", base, hi))
		case x.High == nil:
			lo := t.expr(x.Low, gtype{k: kInt})
			return t.bind(fmt.Sprintf("go_slice_from %s %s", base, lo))
		default:
			lo := t.expr(x.Low, gtype{k: kInt})
			hi := t.expr(x.High, gtype{k: kInt})
			return t.bind(fmt.Sprintf("go_slice %s %s %s", base, lo, hi))
		}
	case *ast.UnaryExpr:
		return "(negb " + t.expr(x.X, gtype{k: kBool}) + ")"
	case *ast.BinaryExpr:
		if t.typeOf(x).k == kUntyped {
			// a constant expression: "Constant expressions are always evaluated exactly; intermediate values and the
			// constants themselves may require precision significantly larger than any predeclared type"
			v := t.constValue(x)
			lo, hi := new(big.Int), new(big.Int)
			switch ty.k {
			case kU8:
				hi.SetUint64(1<<8 - 1)
			case kU32:
				hi.SetUint64(1<<32 - 1)
			case kU64:
				hi.SetUint64(1<<64 - 1)
			case kInt:
				lo.SetInt64(-1 << 63)
				hi.SetInt64(1<<63 - 1)
			default:
				t.refuse(e, "integer constant expression where %s is expected", ty)
			}
			if v.Cmp(lo) < 0 || v.Cmp(hi) > 0 {
				t.refuse(e, "constant %s overflows %s", v, ty)
			}
			if v.Sign() < 0 {
				return "(" + v.String() + ")%Z"
			}
			return intLit(v.String(), ty)
		}
		return t.emitBinary(x, ty)
	case *ast.CompositeLit:
		if ty.k == kBytes {
			// []byte{e1, ..., en}: a new slice of length n holding the values, evaluated left to right (no keys)
			term := "nil"
			var els []string
			for _, el := range x.Elts {
				if _, ok := el.(*ast.KeyValueExpr); ok {
					t.refuse(el, "[]byte literal with an index key")
				}
				els = append(els, t.expr(el, gtype{k: kU8}))
			}
			for k := len(els) - 1; k >= 0; k-- {
				term = fmt.Sprintf("(cons %s %s)", els[k], term)
			}
			return "(go_bytes_lit " + term + ")"
		}
		names, types := t.structFields(ty.name)
		vals := map[string]string{}
		for _, el := range x.Elts {
			kv, ok := el.(*ast.KeyValueExpr)
			if !ok {
				t.refuse(el, "composite literal element without a field name")
			}
			k, ok := kv.Key.(*ast.Ident)
			if !ok {
				t.refuse(el, "composite literal key")
			}
			ft, ok := types[k.Name]
			if !ok {
				t.refuse(el, "unknown field %s", k.Name)
			}
			if _, dup := vals[k.Name]; dup {
				t.refuse(el, "duplicate field %s", k.Name)
			}
			vals[k.Name] = t.expr(kv.Value, ft)
		}
		var fs []string
		for _, n := range names {
			v, ok := vals[n]
			if !ok {
				v = zeroValue(types[n])
			}
			fs = append(fs, fmt.Sprintf("%s_%s := %s", ty.name, n, v))
		}
		return "{| " + strings.Join(fs, "; ") + " |}"
	}
	t.refuse(e, "expression form %T", e)
	return ""
}

// constValue: the exact value of an untyped integer constant expression (typeOf has classified it as kUntyped)
func (t *tr) constValue(e ast.Expr) *big.Int {
	switch x := e.(type) {
	case *ast.ParenExpr:
		return t.constValue(x.X)
	case *ast.BasicLit:
		if v, ok := new(big.Int).SetString(x.Value, 0); ok && x.Kind == token.INT {
			return v
		}
	case *ast.Ident, *ast.SelectorExpr:
		pp, name := t.pp, ""
		if id, ok := x.(*ast.Ident); ok {
			name = id.Name
		} else {
			se := x.(*ast.SelectorExpr)
			name = se.Sel.Name
			pp = nil
			for _, q := range t.g.pkgs {
				if q.importPath == t.pkgOf(se.X) {
					pp = q
				}
			}
		}
		if pp != nil && !t.isLocal(name) {
			if ex, ok := pp.pi.consts[name]; ok && pp.isConst[name] {
				if v, ok := eval(pp.pi, ex, pp.pi.iota[name]); ok && v.kind == "int" {
					return new(big.Int).SetUint64(v.n)
				}
			}
		}
	case *ast.BinaryExpr:
		a, b := t.constValue(x.X), t.constValue(x.Y)
		switch x.Op {
		case token.ADD:
			return new(big.Int).Add(a, b)
		case token.SUB:
			return new(big.Int).Sub(a, b)
		case token.MUL:
			return new(big.Int).Mul(a, b)
		case token.AND:
			if a.Sign() >= 0 && b.Sign() >= 0 {
				return new(big.Int).And(a, b)
			}
		case token.OR:
			if a.Sign() >= 0 && b.Sign() >= 0 {
				return new(big.Int).Or(a, b)
			}
		}
	}
	t.refuse(e, "constant expression the generator cannot evaluate exactly")
	return nil
}

// emitBase: operand of an index expression or of len / bytes.Equal / return: a fresh variable may appear here
func (t *tr) emitBase(e ast.Expr) string {
	if _, ok := e.(*ast.Ident); ok {
		t.freshOK++
		defer func() { t.freshOK-- }()
	}
	ty := t.typeOfBase(e)
	if ty.k != kBytes && ty.k != kStr {
		t.refuse(e, "operand of type %s where []byte is expected", ty)
	}
	return t.emit(e, ty)
}

// constAt: a package-level object of type oty used at type ty
func (t *tr) constAt(e ast.Expr, oty gtype, term string, ty gtype) string {
	switch {
	case oty.k == kUntyped || oty.isInt():
		if !ty.isInt() || (oty.k != kUntyped && oty != ty) {
			t.refuse(e, "integer constant of type %s where %s is expected", oty, ty)
		}
		if ty.k == kInt {
			return "(Z.of_N " + term + ")"
		}
		return term
	case oty.k == kStr, oty.k == kBytes, oty.k == kError:
		if oty != ty {
			t.refuse(e, "object of type %s where %s is expected", oty, ty)
		}
		return term
	}
	t.refuse(e, "package-level object of type %s", oty)
	return ""
}

func (t *tr) emitCall(x *ast.CallExpr, ty gtype) string {
	if t.builtin(x) == "append" {
		// append(a, b...) on byte slices: the VALUE of the result only (see go_append in Base/GoSem.v)
		if len(x.Args) != 2 || x.Ellipsis == token.NoPos {
			t.refuse(x, "append: only append(a, b...) with two []byte operands")
		}
		a := t.expr(x.Args[0], gtype{k: kBytes})
		b := t.expr(x.Args[1], gtype{k: kBytes})
		return fmt.Sprintf("(go_append %s %s)", a, b)
	}
	if x.Ellipsis != token.NoPos {
		t.refuse(x, "variadic call")
	}
	if e := t.bigUint64Bytes(x); e != nil {
		return "(go_big_uint64_bytes " + t.expr(e, gtype{k: kU64}) + ")"
	}
	if t.byteSlice(x.Fun) && len(x.Args) == 1 {
		at := t.typeOf(x.Args[0])
		if at.k != kStr {
			t.refuse(x, "conversion []byte(%s)", at)
		}
		return t.emit(x.Args[0], at)
	}
	switch t.builtin(x) {
	case "len":
		if len(x.Args) != 1 {
			t.refuse(x, "len with %d arguments", len(x.Args))
		}
		if at := t.typeOfBase(x.Args[0]); at.k == kBytesList {
			return "(go_len " + t.emit(x.Args[0], at) + ")"
		}
		return "(go_len " + t.emitBase(x.Args[0]) + ")"
	case "make":
		if len(x.Args) != 2 || !t.byteSlice(x.Args[0]) {
			t.refuse(x, "make: only make([]byte, n)")
		}
		n := t.expr(x.Args[1], gtype{k: kInt})
		return t.bind("go_make_bytes " + n)
	}
	if se, ok := x.Fun.(*ast.SelectorExpr); ok {
		p := t.pkgOf(se.X)
		if p == "bytes" && (se.Sel.Name == "Equal" || se.Sel.Name == "HasPrefix" || se.Sel.Name == "HasSuffix") {
			if len(x.Args) != 2 {
				t.refuse(x, "bytes.%s with %d arguments", se.Sel.Name, len(x.Args))
			}
			a := t.emitBaseBytes(x.Args[0])
			b := t.emitBaseBytes(x.Args[1])
			fn := map[string]string{"Equal": "bytes_equal", "HasPrefix": "bytes_has_prefix", "HasSuffix": "bytes_has_suffix"}[se.Sel.Name]
			return fmt.Sprintf("(%s %s %s)", fn, a, b)
		}
		if p == t.g.modPath+"/check" && se.Sel.Name == "IfNil" {
			if len(x.Args) == 1 {
				if id, ok := x.Args[0].(*ast.Ident); ok {
					if v, ok := t.env[id.Name]; ok && v.typ.k == kIface {
						return vname(id.Name)
					}
				}
			}
			t.refuse(x, "check.IfNil of anything but an interface parameter")
		}
	}
	if w, pp := t.callee(x); w != nil {
		r := t.g.translate(*w, pp)
		if !r.ok {
			t.refuse(x, "call of %s, which is not translated", w.coqName())
		}
		if len(x.Args) != len(r.sig.params) {
			t.refuse(x, "call of %s with %d arguments", w.coqName(), len(x.Args))
		}
		var args []string
		for i, a := range x.Args {
			if r.sig.params[i].k == kIface || r.sig.params[i].k == kPtr {
				t.refuse(x, "call of %s: interface / pointer argument", w.coqName())
			}
			args = append(args, t.expr(a, r.sig.params[i]))
		}
		return t.bind(w.coqName() + " " + strings.Join(args, " "))
	}
	t.refuse(x, "call of %s", types.ExprString(x.Fun))
	return ""
}

func (t *tr) emitBaseBytes(e ast.Expr) string {
	if _, ok := e.(*ast.Ident); ok {
		t.freshOK++
		defer func() { t.freshOK-- }()
	}
	return t.expr(e, gtype{k: kBytes})
}

func (t *tr) emitBinary(x *ast.BinaryExpr, ty gtype) string {
	switch x.Op {
	case token.LAND, token.LOR:
		// "The right operand is evaluated conditionally": a right operand that can panic is bound inside the branch
		l := t.expr(x.X, gtype{k: kBool})
		saved := t.binds
		t.binds = nil
		r := t.expr(x.Y, gtype{k: kBool})
		rb := t.binds
		t.binds = saved
		if len(rb) == 0 {
			if x.Op == token.LAND {
				return fmt.Sprintf("(andb %s %s)", l, r)
			}
			return fmt.Sprintf("(orb %s %s)", l, r)
		}
		inner := "(" + strings.Join(rb, " ") + " go_ret " + r + ")"
		if x.Op == token.LAND {
			return t.bind(fmt.Sprintf("(if %s then %s else go_ret false)", l, inner))
		}
		return t.bind(fmt.Sprintf("(if %s then go_ret true else %s)", l, inner))
	case token.EQL, token.NEQ, token.LSS, token.LEQ, token.GTR, token.GEQ:
		// bytes.Compare(a, b) == 0 / != 0 (either order): "The result will be 0 if a == b"; any other use of
		// bytes.Compare is refused
		if x.Op == token.EQL || x.Op == token.NEQ {
			for _, pair := range [][2]ast.Expr{{x.X, x.Y}, {x.Y, x.X}} {
				if a, b, ok := t.bytesCompare(pair[0]); ok && isZeroLit(pair[1]) {
					l := t.emitBaseBytes(a)
					r := t.emitBaseBytes(b)
					if x.Op == token.EQL {
						return fmt.Sprintf("(bytes_equal %s %s)", l, r)
					}
					return fmt.Sprintf("(negb (bytes_equal %s %s))", l, r)
				}
			}
		}
		ot := t.unify(x, x.X, x.Y)
		if ot.k == kUntyped {
			ot = gtype{k: kInt}
		}
		l := t.expr(x.X, ot)
		r := t.expr(x.Y, ot)
		mod := ""
		switch {
		case ot.k == kInt:
			mod = "Z"
		case ot.unsigned():
			mod = "N"
		case ot.k == kBool && (x.Op == token.EQL || x.Op == token.NEQ):
			if x.Op == token.EQL {
				return fmt.Sprintf("(Bool.eqb %s %s)", l, r)
			}
			return fmt.Sprintf("(negb (Bool.eqb %s %s))", l, r)
		default:
			t.refuse(x, "comparison %s of operands of type %s", x.Op, ot)
		}
		switch x.Op {
		case token.EQL:
			return fmt.Sprintf("(%s.eqb %s %s)", mod, l, r)
		case token.NEQ:
			return fmt.Sprintf("(negb (%s.eqb %s %s))", mod, l, r)
		case token.LSS:
			return fmt.Sprintf("(%s.ltb %s %s)", mod, l, r)
		case token.LEQ:
			return fmt.Sprintf("(%s.leb %s %s)", mod, l, r)
		case token.GTR:
			return fmt.Sprintf("(%s.ltb %s %s)", mod, r, l)
		default:
			return fmt.Sprintf("(%s.leb %s %s)", mod, r, l)
		}
	case token.ADD, token.SUB, token.MUL:
		if !ty.isInt() {
			t.refuse(x, "arithmetic at type %s", ty)
		}
		l := t.expr(x.X, ty)
		r := t.expr(x.Y, ty)
		op := map[token.Token]string{token.ADD: "add", token.SUB: "sub", token.MUL: "mul"}[x.Op]
		return fmt.Sprintf("(%s_%s %s %s)", ty.arith(), op, l, r)
	case token.AND, token.OR:
		if !ty.unsigned() {
			t.refuse(x, "bitwise operator at type %s (only unsigned types)", ty)
		}
		l := t.expr(x.X, ty)
		r := t.expr(x.Y, ty)
		if x.Op == token.AND {
			return fmt.Sprintf("(u_and %s %s)", l, r)
		}
		return fmt.Sprintf("(u_or %s %s)", l, r)
	}
	t.refuse(x, "binary operator %s", x.Op)
	return ""
}

// ---------------------------------------------------------------------------------------------
// statements

type modeKind int

const (
	mFunc modeKind = iota // falls off the end: refused; return e: go_ret e
	mLoop                 // falls off the end: go_continue; return e: go_break e
	mJoin                 // falls off the end: go_ret (yield variables); return: refused
)

type mode struct {
	k     modeKind
	yield []string
}

func tuple(vs []string) string {
	switch len(vs) {
	case 0:
		return "tt"
	case 1:
		return vs[0]
	}
	return "(" + strings.Join(vs, ", ") + ")"
}

func pattern(vs []string) string {
	switch len(vs) {
	case 0:
		return "_"
	case 1:
		return vs[0]
	}
	return "'(" + strings.Join(vs, ", ") + ")"
}

func terminates(list []ast.Stmt) bool {
	if len(list) == 0 {
		return false
	}
	switch s := list[len(list)-1].(type) {
	case *ast.ReturnStmt:
		return true
	case *ast.IfStmt:
		if s.Else == nil {
			return false
		}
		return terminates(s.Body.List) && terminates(elseList(s.Else))
	case *ast.BlockStmt:
		return terminates(s.List)
	case *ast.SwitchStmt:
		hasDefault := false
		for _, c := range s.Body.List {
			cc, ok := c.(*ast.CaseClause)
			if !ok || !terminates(stripBreak(cc.Body)) {
				return false
			}
			if cc.List == nil {
				hasDefault = true
			}
		}
		return hasDefault
	}
	return false
}

// stripBreak: a clause body without its final unlabelled `break` (which only ends the clause)
func stripBreak(body []ast.Stmt) []ast.Stmt {
	if n := len(body); n > 0 {
		if b, ok := body[n-1].(*ast.BranchStmt); ok && b.Tok == token.BREAK && b.Label == nil {
			return body[:n-1]
		}
	}
	return body
}

func elseList(s ast.Stmt) []ast.Stmt {
	if b, ok := s.(*ast.BlockStmt); ok {
		return b.List
	}
	return []ast.Stmt{s}
}

func containsReturn(list []ast.Stmt) bool {
	found := false
	for _, s := range list {
		ast.Inspect(s, func(n ast.Node) bool {
			if _, ok := n.(*ast.ReturnStmt); ok {
				found = true
			}
			return !found
		})
	}
	return found
}

// assignedOuter: variables of the enclosing environment that the statements assign (by =, op=, ++, s[i] =)
func (t *tr) assignedOuter(list []ast.Stmt) []string {
	set := map[string]bool{}
	note := func(e ast.Expr) {
		if ix, ok := e.(*ast.IndexExpr); ok {
			e = ix.X
		}
		if se, ok := e.(*ast.SelectorExpr); ok {
			e = se.X
		}
		if id, ok := e.(*ast.Ident); ok {
			if _, ok := t.env[id.Name]; ok {
				set[id.Name] = true
			}
		}
	}
	for _, s := range list {
		ast.Inspect(s, func(n ast.Node) bool {
			switch x := n.(type) {
			case *ast.AssignStmt:
				if x.Tok != token.DEFINE {
					for _, l := range x.Lhs {
						note(l)
					}
				}
			case *ast.IncDecStmt:
				note(x.X)
			}
			return true
		})
	}
	var out []string
	for k := range set {
		out = append(out, k)
	}
	sort.Strings(out)
	return out
}

func (t *tr) inScope(body func() string) string {
	saved := t.env
	t.env = t.copyEnv()
	defer func() { t.env = saved }()
	return body()
}

func (t *tr) block(list []ast.Stmt, m mode, ind string) string {
	if len(list) == 0 {
		switch m.k {
		case mLoop:
			return ind + "go_continue\n"
		case mJoin:
			var vs []string
			for _, y := range m.yield {
				vs = append(vs, vname(y))
			}
			return ind + "go_ret " + tuple(vs) + "\n"
		}
		panic(refusal{token.NoPos, "control reaches the end of the function body"})
	}
	s, rest := list[0], list[1:]
	switch x := s.(type) {
	case *ast.ReturnStmt:
		if len(rest) > 0 {
			t.refuse(rest[0], "statement after return")
		}
		if m.k == mJoin {
			t.refuse(s, "return inside a conditional that also falls through")
		}
		results := x.Results
		if len(results) == 0 && len(t.named) > 0 {
			// "a "return" statement without operands returns the values of the named result variables" (the function has no defer)
			for _, n := range t.named {
				results = append(results, &ast.Ident{NamePos: x.Pos(), Name: n})
			}
		}
		if len(results) != len(t.results) {
			t.refuse(s, "return with %d values, function has %d results", len(results), len(t.results))
		}
		var vs []string
		for i, r := range results {
			if _, ok := r.(*ast.Ident); ok {
				t.freshOK++
			}
			vs = append(vs, t.expr(r, t.results[i]))
			if _, ok := r.(*ast.Ident); ok {
				t.freshOK--
			}
		}
		fn := "go_ret"
		if m.k == mLoop {
			fn = "go_break"
		}
		return t.flush(ind) + ind + fn + " " + tuple(vs) + "\n"
	case *ast.IncDecStmt:
		op := token.ADD
		if x.Tok == token.DEC {
			op = token.SUB
		}
		as := &ast.AssignStmt{Lhs: []ast.Expr{x.X}, TokPos: x.TokPos, Tok: token.ASSIGN,
			Rhs: []ast.Expr{&ast.BinaryExpr{X: x.X, OpPos: x.TokPos, Op: op, Y: &ast.BasicLit{ValuePos: x.TokPos, Kind: token.INT, Value: "1"}}}}
		return t.assignInd(as, s, ind) + t.block(rest, m, ind)
	case *ast.AssignStmt:
		return t.assignInd(x, s, ind) + t.block(rest, m, ind)
	case *ast.DeclStmt:
		return t.declStmt(x, ind) + t.block(rest, m, ind)
	case *ast.BlockStmt:
		t.refuse(s, "nested block statement")
	case *ast.IfStmt:
		return t.ifStmt(x, rest, m, ind)
	case *ast.ForStmt:
		return t.forStmt(x, rest, m, ind)
	case *ast.RangeStmt:
		return t.rangeStmt(x, rest, m, ind)
	case *ast.SwitchStmt:
		return t.switchStmt(x, rest, m, ind)
	}
	t.refuse(s, "statement form %T", s)
	return ""
}

// parallelAssign: x, y := e1, e2 | x, y = e1, e2 with plain variables on the left.  "The assignment proceeds in two
// phases.  First, the operands of index expressions and pointer indirections on the left and the expressions on
// the right are all evaluated in the usual order.  Second, the assignments are carried out in left-to-right order."
// Every right-hand side is bound to a temporary before the first variable is bound.
func (t *tr) parallelAssign(x *ast.AssignStmt, at ast.Stmt, ind string) string {
	if len(x.Lhs) != len(x.Rhs) || (x.Tok != token.DEFINE && x.Tok != token.ASSIGN) {
		t.refuse(at, "assignment with several operands that is not `x, y := e1, e2` or `x, y = e1, e2`")
	}
	seen := map[string]bool{}
	var names []string
	var tys []gtype
	for i, l := range x.Lhs {
		id, ok := l.(*ast.Ident)
		if !ok || id.Name == "_" {
			t.refuse(at, "assignment with several operands: only plain variables on the left")
		}
		if seen[id.Name] {
			t.refuse(at, "variable %s assigned twice in one statement", id.Name)
		}
		seen[id.Name] = true
		var ty gtype
		if x.Tok == token.DEFINE {
			// (Go allows `:=` to re-use variables of the same scope when at least one is new; here all must be new)
			if t.isLocal(id.Name) {
				t.refuse(at, "%s := ... redeclares or shadows a variable in scope", id.Name)
			}
			ty = t.typeOf(x.Rhs[i])
			if ty.k == kUntyped {
				ty = gtype{k: kInt}
			}
			switch ty.k {
			case kBool, kBytes, kU8, kU32, kU64, kInt, kStruct:
			default:
				t.refuse(at, "variable of type %s", ty)
			}
		} else {
			v, ok := t.env[id.Name]
			if !ok {
				t.refuse(at, "assignment to %s, which is not a local variable", id.Name)
			}
			if v.typ.k == kIface || v.typ.k == kPtr {
				t.refuse(at, "assignment to a variable of type %s", v.typ)
			}
			ty = v.typ
		}
		names = append(names, id.Name)
		tys = append(tys, ty)
	}
	var tmps []string
	out := ""
	for i, r := range x.Rhs {
		term := t.expr(r, tys[i])
		out += t.flush(ind)
		n := t.tmp()
		out += fmt.Sprintf("%slet %s := %s in\n", ind, n, term)
		tmps = append(tmps, n)
	}
	for i, n := range names {
		out += fmt.Sprintf("%slet %s := %s in\n", ind, vname(n), tmps[i])
		if x.Tok == token.DEFINE {
			t.env[n] = &varInfo{typ: tys[i]}
		} else {
			t.env[n].fresh = false
		}
	}
	return out
}

func (t *tr) assignInd(x *ast.AssignStmt, at ast.Stmt, ind string) string {
	if len(x.Lhs) != 1 || len(x.Rhs) != 1 {
		return t.parallelAssign(x, at, ind)
	}
	rhs := x.Rhs[0]
	var binop token.Token
	switch x.Tok {
	case token.DEFINE, token.ASSIGN:
	case token.ADD_ASSIGN:
		binop = token.ADD
	case token.SUB_ASSIGN:
		binop = token.SUB
	case token.MUL_ASSIGN:
		binop = token.MUL
	case token.AND_ASSIGN:
		binop = token.AND
	case token.OR_ASSIGN:
		binop = token.OR
	default:
		t.refuse(at, "assignment operator %s", x.Tok)
	}
	switch l := x.Lhs[0].(type) {
	case *ast.Ident:
		if l.Name == "_" {
			t.refuse(at, "assignment to _")
		}
		if x.Tok == token.DEFINE {
			if t.isLocal(l.Name) {
				t.refuse(at, "%s := ... redeclares or shadows a variable in scope", l.Name)
			}
			ty := t.typeOf(rhs)
			if ty.k == kUntyped {
				ty = gtype{k: kInt}
			}
			switch ty.k {
			case kBool, kBytes, kU8, kU32, kU64, kInt, kStruct:
			default:
				t.refuse(at, "variable of type %s", ty)
			}
			term := t.expr(rhs, ty)
			fresh := false
			if call, ok := rhs.(*ast.CallExpr); ok && t.builtin(call) == "make" {
				fresh = true
			}
			out := t.flush(ind) + fmt.Sprintf("%slet %s := %s in\n", ind, vname(l.Name), term)
			t.env[l.Name] = &varInfo{typ: ty, fresh: fresh}
			return out
		}
		v, ok := t.env[l.Name]
		if !ok {
			t.refuse(at, "assignment to %s, which is not a local variable", l.Name)
		}
		if v.typ.k == kIface || v.typ.k == kPtr {
			t.refuse(at, "assignment to a variable of type %s", v.typ)
		}
		var term string
		if binop != 0 {
			term = t.expr(&ast.BinaryExpr{X: l, OpPos: x.TokPos, Op: binop, Y: rhs}, v.typ)
		} else {
			term = t.expr(rhs, v.typ)
		}
		fresh := false
		if call, ok := rhs.(*ast.CallExpr); ok && binop == 0 && t.builtin(call) == "make" {
			fresh = true
		}
		v.fresh = fresh
		return t.flush(ind) + fmt.Sprintf("%slet %s := %s in\n", ind, vname(l.Name), term)
	case *ast.IndexExpr:
		id, ok := l.X.(*ast.Ident)
		if !ok {
			t.refuse(at, "index assignment to something that is not a variable")
		}
		v, ok := t.env[id.Name]
		if !ok || !v.fresh || v.typ.k != kBytes {
			t.refuse(at, "index assignment to %s, which is not a local slice made by make([]byte, n) in this scope", id.Name)
		}
		if x.Tok == token.DEFINE {
			t.refuse(at, ":= with an index expression")
		}
		idx := t.expr(l.Index, gtype{k: kInt})
		var val string
		if binop != 0 {
			old := t.bind(fmt.Sprintf("go_index %s %s", vname(id.Name), idx))
			r := t.expr(rhs, gtype{k: kU8})
			switch binop {
			case token.AND:
				val = fmt.Sprintf("(u_and %s %s)", old, r)
			case token.OR:
				val = fmt.Sprintf("(u_or %s %s)", old, r)
			case token.ADD:
				val = fmt.Sprintf("(u8_add %s %s)", old, r)
			case token.SUB:
				val = fmt.Sprintf("(u8_sub %s %s)", old, r)
			default:
				val = fmt.Sprintf("(u8_mul %s %s)", old, r)
			}
		} else {
			val = t.expr(rhs, gtype{k: kU8})
		}
		n := t.bind(fmt.Sprintf("go_set_index %s %s %s", vname(id.Name), idx, val))
		return t.flush(ind) + fmt.Sprintf("%slet %s := %s in\n", ind, vname(id.Name), n)
	case *ast.SelectorExpr:
		// v.f = e on a local struct VALUE (a struct reached through a pointer is shared with the caller: refused):
		// the variable is rebound to the record with that one field replaced
		id, ok := l.X.(*ast.Ident)
		if !ok {
			t.refuse(at, "field assignment to something that is not a variable")
		}
		v, ok := t.env[id.Name]
		if !ok || v.typ.k != kStruct {
			t.refuse(at, "field assignment to %s, which is not a local variable of a struct type", id.Name)
		}
		if x.Tok == token.DEFINE {
			t.refuse(at, ":= with a selector expression")
		}
		names, types := t.structFields(v.typ.name)
		ft, ok := types[l.Sel.Name]
		if !ok {
			t.refuse(at, "struct %s has no field %s", v.typ.name, l.Sel.Name)
		}
		var term string
		if binop != 0 {
			term = t.expr(&ast.BinaryExpr{X: l, OpPos: x.TokPos, Op: binop, Y: rhs}, ft)
		} else {
			term = t.expr(rhs, ft)
		}
		var fs []string
		for _, n := range names {
			if n == l.Sel.Name {
				fs = append(fs, fmt.Sprintf("%s_%s := %s", v.typ.name, n, term))
			} else {
				fs = append(fs, fmt.Sprintf("%s_%s := (%s_%s %s)", v.typ.name, n, v.typ.name, n, vname(id.Name)))
			}
		}
		return t.flush(ind) + fmt.Sprintf("%slet %s := {| %s |} in\n", ind, vname(id.Name), strings.Join(fs, "; "))
	}
	t.refuse(at, "assignment target %T", x.Lhs[0])
	return ""
}

// var x, y T | var x T = e | var x, y = e1, e2 (one or several specs).  Without a value the variable starts at the
// zero value of T; with values, all of them are evaluated before the first variable of the spec is bound.
func (t *tr) declStmt(x *ast.DeclStmt, ind string) string {
	gd, ok := x.Decl.(*ast.GenDecl)
	if !ok || gd.Tok != token.VAR {
		t.refuse(x, "declaration statement other than var")
	}
	out := ""
	for _, sp := range gd.Specs {
		vs, ok := sp.(*ast.ValueSpec)
		if !ok {
			t.refuse(x, "declaration statement other than var")
		}
		if len(vs.Values) != 0 && len(vs.Values) != len(vs.Names) {
			t.refuse(vs, "var with %d names and %d values", len(vs.Names), len(vs.Values))
		}
		var declared gtype
		if vs.Type != nil {
			declared = t.parseType(vs.Type, "local")
			switch declared.k {
			case kBool, kBytes, kU8, kU32, kU64, kInt, kStruct:
			default:
				t.refuse(vs, "variable of type %s", declared)
			}
		} else if len(vs.Values) == 0 {
			t.refuse(vs, "var without a type and without a value")
		}
		seen := map[string]bool{}
		for _, n := range vs.Names {
			if n.Name == "_" || seen[n.Name] {
				t.refuse(n, "var name %s", n.Name)
			}
			seen[n.Name] = true
			if t.isLocal(n.Name) {
				t.refuse(n, "var %s redeclares or shadows a variable in scope", n.Name)
			}
		}
		var terms []string
		var tys []gtype
		for i := range vs.Names {
			ty := declared
			if len(vs.Values) == 0 {
				terms = append(terms, t.zeroOf(ty, vs))
			} else {
				if ty.k == kNone {
					ty = t.typeOf(vs.Values[i])
					if ty.k == kUntyped {
						ty = gtype{k: kInt}
					}
					switch ty.k {
					case kBool, kBytes, kU8, kU32, kU64, kInt, kStruct:
					default:
						t.refuse(vs, "variable of type %s", ty)
					}
				}
				term := t.expr(vs.Values[i], ty)
				out += t.flush(ind)
				if len(vs.Names) > 1 {
					n := t.tmp()
					out += fmt.Sprintf("%slet %s := %s in\n", ind, n, term)
					term = n
				}
				terms = append(terms, term)
			}
			tys = append(tys, ty)
		}
		for i, n := range vs.Names {
			out += fmt.Sprintf("%slet %s := %s in\n", ind, vname(n.Name), terms[i])
			t.env[n.Name] = &varInfo{typ: tys[i]}
		}
	}
	return out
}

func (t *tr) ifStmt(x *ast.IfStmt, rest []ast.Stmt, m mode, ind string) string {
	pre := ""
	if x.Init != nil {
		// if x := e; cond { ... }: x is declared for the condition and both branches
		as, ok := x.Init.(*ast.AssignStmt)
		if !ok || as.Tok != token.DEFINE || len(as.Lhs) != 1 || len(as.Rhs) != 1 {
			t.refuse(x, "if with an init statement other than `x := e`")
		}
		id, ok := as.Lhs[0].(*ast.Ident)
		if !ok {
			t.refuse(x, "if with an init statement other than `x := e`")
		}
		pre = t.assignInd(as, x, ind)
		defer delete(t.env, id.Name)
	}
	cond := t.expr(x.Cond, gtype{k: kBool})
	pre += t.flush(ind)
	thenL := x.Body.List
	var elseL []ast.Stmt
	if x.Else != nil {
		elseL = elseList(x.Else)
	}
	branch := func(a, b string) string {
		return pre + ind + "if " + cond + " then (\n" + a + ind + ") else (\n" + b + ind + ")\n"
	}
	thenT := terminates(thenL)
	elseT := x.Else != nil && terminates(elseL)
	in2 := ind + "  "
	switch {
	case x.Else == nil && thenT:
		a := t.inScope(func() string { return t.block(thenL, m, in2) })
		b := t.block(rest, m, in2)
		return branch(a, b)
	case x.Else != nil && thenT && elseT:
		if len(rest) > 0 {
			t.refuse(rest[0], "unreachable statement")
		}
		a := t.inScope(func() string { return t.block(thenL, m, in2) })
		b := t.inScope(func() string { return t.block(elseL, m, in2) })
		return branch(a, b)
	case x.Else != nil && thenT:
		a := t.inScope(func() string { return t.block(thenL, m, in2) })
		b := t.inScope(func() string { return t.block(append(append([]ast.Stmt{}, elseL...), rest...), m, in2) })
		return branch(a, b)
	case x.Else != nil && elseT:
		b := t.inScope(func() string { return t.block(elseL, m, in2) })
		a := t.inScope(func() string { return t.block(append(append([]ast.Stmt{}, thenL...), rest...), m, in2) })
		return branch(a, b)
	}
	// both branches fall through: no return allowed inside; the assigned outer variables are joined
	if containsReturn(thenL) || containsReturn(elseL) {
		t.refuse(x, "conditional in which some paths return and others fall through")
	}
	ys := t.assignedOuter(append(append([]ast.Stmt{}, thenL...), elseL...))
	jm := mode{k: mJoin, yield: ys}
	a := t.inScope(func() string { return t.block(thenL, jm, in2) })
	b := t.inScope(func() string { return t.block(elseL, jm, in2) })
	var vs []string
	for _, y := range ys {
		vs = append(vs, vname(y))
		// a slice variable assigned as a whole inside the branches may alias afterwards
		if t.env[y].typ.k == kBytes && t.wholeAssigned(append(append([]ast.Stmt{}, thenL...), elseL...), y) {
			t.env[y].fresh = false
		}
	}
	out := pre + ind + pattern(vs) + " <- (if " + cond + " then (\n" + a + ind + ") else (\n" + b + ind + ")) ;;\n"
	return out + t.block(rest, m, ind)
}

func (t *tr) wholeAssigned(list []ast.Stmt, name string) bool {
	found := false
	for _, s := range list {
		ast.Inspect(s, func(n ast.Node) bool {
			if as, ok := n.(*ast.AssignStmt); ok && as.Tok != token.DEFINE {
				for _, l := range as.Lhs {
					if id, ok := l.(*ast.Ident); ok && id.Name == name {
						found = true
					}
				}
			}
			return true
		})
	}
	return found
}

// switch: translated as the if / else-if chain with the same evaluation order (clauses top to bottom, the
// expressions of a clause left to right, stopping at the first match; default last wherever it is written).
// A tag is evaluated once, into a synthetic variable.  No init statement, no fallthrough; break only as the
// last statement of a clause.
func (t *tr) switchStmt(x *ast.SwitchStmt, rest []ast.Stmt, m mode, ind string) string {
	if x.Init != nil {
		t.refuse(x, "switch with an init statement")
	}
	pre := ""
	var tag ast.Expr
	if x.Tag != nil {
		t.nsyn++
		id := &ast.Ident{NamePos: x.Tag.Pos(), Name: fmt.Sprintf("tag'%d", t.nsyn)}
		pre = t.assignInd(&ast.AssignStmt{Lhs: []ast.Expr{id}, TokPos: x.Tag.Pos(), Tok: token.DEFINE, Rhs: []ast.Expr{x.Tag}}, x, ind)
		if ty := t.env[id.Name].typ; !ty.isInt() && ty.k != kBool {
			t.refuse(x.Tag, "switch on a value of type %s (only integers and bool)", ty)
		}
		t.env[id.Name].fresh = false
		tag = id
	}
	var def *ast.CaseClause
	var cases []*ast.CaseClause
	for _, c := range x.Body.List {
		cc, ok := c.(*ast.CaseClause)
		if !ok {
			t.refuse(c, "switch body")
		}
		for _, st := range cc.Body {
			if b, ok := st.(*ast.BranchStmt); ok && b.Tok == token.FALLTHROUGH {
				t.refuse(b, "fallthrough")
			}
		}
		if cc.List == nil {
			if def != nil {
				t.refuse(cc, "second default clause")
			}
			def = cc
		} else {
			cases = append(cases, cc)
		}
	}
	if len(cases) == 0 {
		t.refuse(x, "switch without a case clause")
	}
	var chain ast.Stmt
	if def != nil {
		chain = &ast.BlockStmt{Lbrace: def.Pos(), List: stripBreak(def.Body)}
	}
	for k := len(cases) - 1; k >= 0; k-- {
		var cond ast.Expr
		for _, e := range cases[k].List {
			c := e
			if tag != nil {
				c = &ast.BinaryExpr{X: tag, OpPos: e.Pos(), Op: token.EQL, Y: e}
			}
			if cond == nil {
				cond = c
			} else {
				cond = &ast.BinaryExpr{X: cond, OpPos: e.Pos(), Op: token.LOR, Y: c}
			}
		}
		ifs := &ast.IfStmt{If: cases[k].Pos(), Cond: cond, Body: &ast.BlockStmt{Lbrace: cases[k].Colon, List: stripBreak(cases[k].Body)}}
		if chain != nil {
			ifs.Else = chain
		}
		chain = ifs
	}
	return pre + t.block(append([]ast.Stmt{chain}, rest...), m, ind)
}

// checkLoopBody: the body may not assign the counter or any variable declared outside the loop (so every
// expression over such variables is loop-invariant), and may not contain break / continue / goto / fallthrough
// (a `break` that is the last statement of a switch clause only ends the clause and is allowed)
func (t *tr) checkLoopBody(at ast.Node, iv string, body []ast.Stmt) {
	func() {
		saved := t.env
		t.env = t.copyEnv()
		t.env[iv] = &varInfo{typ: gtype{k: kInt}}
		defer func() { t.env = saved }()
		if as := t.assignedOuter(body); len(as) > 0 {
			t.refuse(at, "loop body assigns %s, declared outside the body", strings.Join(as, ", "))
		}
	}()
	allowed := map[*ast.BranchStmt]bool{}
	for _, s := range body {
		ast.Inspect(s, func(n ast.Node) bool {
			if cc, ok := n.(*ast.CaseClause); ok {
				if k := len(cc.Body); k > 0 {
					if b, ok := cc.Body[k-1].(*ast.BranchStmt); ok && b.Tok == token.BREAK && b.Label == nil {
						allowed[b] = true
					}
				}
			}
			return true
		})
	}
	for _, s := range body {
		ast.Inspect(s, func(n ast.Node) bool {
			if b, ok := n.(*ast.BranchStmt); ok && !allowed[b] {
				t.refuse(b, "%s statement inside a loop", b.Tok)
			}
			return true
		})
	}
}

// loop: `header (fun v_i => pre; body)` followed by the early-return test; header is a GoSem loop combinator
// applied to its bounds (go_for_upto n | go_for_range a e)
func (t *tr) loop(at ast.Node, iv string, header string, pre []ast.Stmt, body []ast.Stmt, rest []ast.Stmt, m mode, ind string) string {
	if m.k != mFunc {
		t.refuse(at, "loop inside a loop or inside a conditional that falls through")
	}
	t.checkLoopBody(at, iv, body)
	in2 := ind + "  "
	b := t.inScope(func() string {
		t.env[iv] = &varInfo{typ: gtype{k: kInt}}
		return t.block(append(append([]ast.Stmt{}, pre...), body...), mode{k: mLoop}, in2)
	})
	r := t.tmp()
	out := ind + r + " <- " + header + " (fun " + vname(iv) + " =>\n" + b + ind + ") ;;\n"
	out += ind + "match " + r + " with\n"
	out += ind + "| Some r => go_ret r\n"
	out += ind + "| None =>\n" + t.block(rest, m, in2) + ind + "end\n"
	return out
}

// for i := a; i < e; i++ { body }: a and e panic-free int expressions that do not mention i; e is loop-invariant
// because the body assigns no variable declared outside it (checkLoopBody).  The iteration count is fixed before
// the loop: len(x) for the shape `i := 0; i < len(x)`, else max(0, e - a).
func (t *tr) forStmt(x *ast.ForStmt, rest []ast.Stmt, m mode, ind string) string {
	bad := func() { t.refuse(x, "loop shape (only `for i := a; i < e; i++ { ... }` and `for ... := range s`)") }
	init, ok := x.Init.(*ast.AssignStmt)
	if !ok || init.Tok != token.DEFINE || len(init.Lhs) != 1 || len(init.Rhs) != 1 {
		bad()
	}
	iv, ok := init.Lhs[0].(*ast.Ident)
	if !ok || iv.Name == "_" || t.isLocal(iv.Name) {
		bad()
	}
	cond, ok := x.Cond.(*ast.BinaryExpr)
	if !ok || cond.Op != token.LSS {
		bad()
	}
	if ci, ok := cond.X.(*ast.Ident); !ok || ci.Name != iv.Name {
		bad()
	}
	post, ok := x.Post.(*ast.IncDecStmt)
	if !ok || post.Tok != token.INC {
		bad()
	}
	if pi, ok := post.X.(*ast.Ident); !ok || pi.Name != iv.Name {
		bad()
	}
	mentions := false
	ast.Inspect(cond.Y, func(n ast.Node) bool {
		if id, ok := n.(*ast.Ident); ok && id.Name == iv.Name {
			mentions = true
		}
		return true
	})
	if mentions {
		t.refuse(cond.Y, "loop bound mentions the counter")
	}
	header := ""
	if lit, ok := init.Rhs[0].(*ast.BasicLit); ok && lit.Kind == token.INT && lit.Value == "0" {
		if call, ok := cond.Y.(*ast.CallExpr); ok && t.builtin(call) == "len" && len(call.Args) == 1 {
			if sv, ok := call.Args[0].(*ast.Ident); ok {
				if svi, ok := t.env[sv.Name]; ok && svi.typ.k == kBytes {
					header = "go_for_upto (List.length " + vname(sv.Name) + ")"
				}
			}
		}
	}
	if header == "" {
		if len(t.binds) != 0 {
			t.refuse(x, "internal: pending bindings before a loop")
		}
		for _, e := range []ast.Expr{init.Rhs[0], cond.Y} {
			if ty := t.typeOf(e); ty.k != kUntyped && ty != (gtype{k: kInt}) {
				t.refuse(e, "loop bound of type %s (only int)", ty)
			}
		}
		a := t.expr(init.Rhs[0], gtype{k: kInt})
		e := t.expr(cond.Y, gtype{k: kInt})
		if len(t.binds) != 0 {
			t.refuse(x, "loop bounds that can panic or call functions")
		}
		header = "go_for_range " + a + " " + e
	}
	return t.loop(x, iv.Name, header, nil, x.Body.List, rest, m, ind)
}

// for i := range s | for i, b := range s | for _, b := range s, s a []byte variable that the body does not assign:
// len(s) iterations ("the range expression is evaluated once"), b = s[i] at the start of the iteration
func (t *tr) rangeStmt(x *ast.RangeStmt, rest []ast.Stmt, m mode, ind string) string {
	if x.Tok != token.DEFINE || x.Key == nil {
		t.refuse(x, "range loop without `:=` variables")
	}
	sv, ok := x.X.(*ast.Ident)
	if !ok {
		t.refuse(x.X, "range over an expression that is not a variable")
	}
	svi, ok := t.env[sv.Name]
	if !ok || svi.typ.k != kBytes {
		t.refuse(x.X, "range over something that is not a local []byte variable")
	}
	key, ok := x.Key.(*ast.Ident)
	if !ok {
		t.refuse(x.Key, "range key")
	}
	ivName := key.Name
	if ivName == "_" {
		t.nsyn++
		ivName = fmt.Sprintf("idx'%d", t.nsyn)
	} else if t.isLocal(ivName) {
		t.refuse(key, "%s := ... redeclares or shadows a variable in scope", ivName)
	}
	var pre []ast.Stmt
	if x.Value != nil {
		val, ok := x.Value.(*ast.Ident)
		if !ok {
			t.refuse(x.Value, "range value")
		}
		if val.Name != "_" {
			if val.Name == ivName {
				t.refuse(val, "range key and value have the same name")
			}
			pre = append(pre, &ast.AssignStmt{Lhs: []ast.Expr{val}, TokPos: val.Pos(), Tok: token.DEFINE,
				Rhs: []ast.Expr{&ast.IndexExpr{X: sv, Lbrack: val.Pos(), Index: &ast.Ident{NamePos: val.Pos(), Name: ivName}, Rbrack: val.Pos()}}})
		}
	}
	return t.loop(x, ivName, "go_for_upto (List.length "+vname(sv.Name)+")", pre, x.Body.List, rest, m, ind)
}

// ---------------------------------------------------------------------------------------------

func (g *pureGen) position(pp *purePkg, pos token.Pos) string {
	if pos == token.NoPos {
		return ""
	}
	p := pp.pi.fset.Position(pos)
	rel, err := filepath.Rel(g.repo, p.Filename)
	if err != nil {
		rel = filepath.Base(p.Filename)
	}
	return fmt.Sprintf("%s:%d", rel, p.Line)
}

func coqQuote(s string) string {
	s = strings.ReplaceAll(s, "\"", "'")
	s = strings.ReplaceAll(s, "\n", " ")
	return s
}

func (g *pureGen) translate(w whiteEntry, pp *purePkg) *fnResult {
	name := w.coqName()
	if r, ok := g.done[name]; ok {
		// (a method T.M and a plain function T_M would share the Gallina name T_M)
		if g.donePkg[name] != pp.dir+":"+w.key() {
			return &fnResult{why: "the name " + name + " is used by two functions"}
		}
		return r
	}
	if g.busy[name] {
		return &fnResult{why: "recursive"}
	}
	if !validCoqFunctionName(name) {
		// nothing is emitted under this name (a definition `<name>_unrecognised` could itself collide)
		return &fnResult{why: "the function name " + name + " collides with the vocabulary of the generated text"}
	}
	g.busy[name] = true
	defer func() { g.busy[name] = false }()
	res := &fnResult{}
	unrec := func(where, what string) {
		if where != "" {
			what = where + ": " + what
		}
		res.ok = false
		res.why = what
		res.text = fmt.Sprintf("Definition %s_unrecognised : GoSem.unrecognised := GoSem.Unrecognised \"%s\"%%string.", name, coqQuote(what))
	}
	func() {
		fd, ok := pp.funcs[w.key()]
		// a name is unique in a Go package: the file a function lives in is not part of its meaning (the whitelist's
		// file is where it was at the pinned commit, kept for the reader only)
		if !ok || fd.Body == nil {
			unrec(pp.dir, "function "+w.key()+" not found in this package")
			return
		}
		t := &tr{g: g, pp: pp, fname: pp.funcFile[w.key()], env: map[string]*varInfo{}}
		defer func() {
			if r := recover(); r != nil {
				rf, ok := r.(refusal)
				if !ok {
					panic(r)
				}
				pos := rf.pos
				if pos == token.NoPos {
					pos = fd.Pos()
				}
				unrec(g.position(pp, pos), rf.msg)
			}
		}()
		if fd.Type.TypeParams != nil {
			t.refuse(fd, "type parameters")
		}
		var params []string
		var notes []string
		addParam := func(n *ast.Ident, ty gtype) {
			if n.Name == "_" {
				t.refuse(n, "blank parameter")
			}
			if t.isLocal(n.Name) {
				t.refuse(n, "duplicate parameter name")
			}
			t.env[n.Name] = &varInfo{typ: ty}
			params = append(params, fmt.Sprintf("(%s : %s)", vname(n.Name), ty.coq()))
			res.sig.params = append(res.sig.params, ty)
			if ty.k == kIface {
				notes = append(notes, vname(n.Name)+": an interface value, modelled by `is nil`")
			}
			if ty.k == kPtr {
				notes = append(notes, vname(n.Name)+": a pointer, None = nil")
			}
		}
		if fd.Recv != nil {
			if w.recv == "" || len(fd.Recv.List) != 1 || len(fd.Recv.List[0].Names) != 1 {
				t.refuse(fd, "receiver shape")
			}
			addParam(fd.Recv.List[0].Names[0], t.parseType(fd.Recv.List[0].Type, "recv"))
		}
		for _, f := range fd.Type.Params.List {
			if _, ok := f.Type.(*ast.Ellipsis); ok {
				t.refuse(f, "variadic parameter")
			}
			if len(f.Names) == 0 {
				t.refuse(f, "unnamed parameter")
			}
			ty := t.parseType(f.Type, "param")
			for _, n := range f.Names {
				addParam(n, ty)
			}
		}
		if fd.Type.Results == nil || len(fd.Type.Results.List) == 0 {
			t.refuse(fd, "function without a result")
		}
		var rts []string
		prelude := ""
		for _, f := range fd.Type.Results.List {
			ty := t.parseType(f.Type, "result")
			if len(f.Names) == 0 {
				t.results = append(t.results, ty)
				rts = append(rts, ty.coq())
			}
			// "named results ... are initialized to the zero values for their types upon entry to the function"
			for _, n := range f.Names {
				if n.Name == "_" {
					t.refuse(n, "blank named result")
				}
				if t.isLocal(n.Name) {
					t.refuse(n, "duplicate parameter / result name")
				}
				t.results = append(t.results, ty)
				rts = append(rts, ty.coq())
				t.named = append(t.named, n.Name)
				prelude += fmt.Sprintf("  let %s := %s in\n", vname(n.Name), t.zeroOf(ty, n))
				t.env[n.Name] = &varInfo{typ: ty}
			}
		}
		if len(t.named) != 0 && len(t.named) != len(t.results) {
			t.refuse(fd, "named and unnamed results mixed")
		}
		res.sig.results = t.results
		body := prelude + t.block(fd.Body.List, mode{k: mFunc}, "  ")
		rt := strings.Join(rts, " * ")
		if len(rts) > 1 {
			rt = "(" + rt + ")"
		}
		var sb strings.Builder
		sb.WriteString(fmt.Sprintf("(* %s  func %s *)\n", g.position(pp, fd.Pos()), w.key()))
		for _, n := range notes {
			sb.WriteString("(* " + n + " *)\n")
		}
		sb.WriteString(fmt.Sprintf("Definition %s %s : option %s :=\n", name, strings.Join(params, " "), rt))
		sb.WriteString(strings.TrimRight(body, "\n") + ".")
		res.ok = true
		res.text = sb.String()
	}()
	g.done[name] = res
	g.donePkg[name] = pp.dir + ":" + w.key()
	g.order = append(g.order, name)
	return res
}

func genPure(repo, outDir string) {
	g := &pureGen{repo: repo, modPath: readModulePath(repo), pkgs: map[string]*purePkg{}, done: map[string]*fnResult{},
		busy: map[string]bool{}, donePkg: map[string]string{}, records: map[string]string{}, recWhy: map[string]string{}, recPkg: map[string]string{}, views: map[string]*viewInfo{}}
	g.pkgs[""] = loadPurePkg(repo, g.modPath, "", g.modPath, "")
	g.pkgs["builtInFunctions"] = loadPurePkg(repo, g.modPath, "builtInFunctions", g.modPath+"/builtInFunctions", "bif_")
	seen := map[string]bool{}
	for _, w := range pureWhitelist {
		if seen[w.coqName()] {
			fmt.Fprintln(os.Stderr, "srcgen: duplicate name in the whitelist of pure functions:", w.coqName())
			os.Exit(2)
		}
		seen[w.coqName()] = true
		g.translate(w, g.pkgs[w.dir])
	}
	o := &outFile{}
	o.p("(* GENERATED by tools/srcgen (pure.go) from /repo's current sources on every check run. Do not edit.")
	o.p("   One Gallina definition per whitelisted Go function, over the combinators of Base/GoSem.v;")
	o.p("   `None` = run-time panic.  Helpers/PureTie_*.v ties each definition to the hand-written model. *)")
	o.p("From Coq.Strings Require Import String.")
	o.p("From EV Require Import Base.Bytes gen.Consts Base.GoSem.")
	o.p("Import GoNotations.")
	o.p("(* every generated function is registered for `autounfold with pure_gen`: the tie proofs open the helpers that")
	o.p("   the translated roots call, whatever their names are *)")
	o.p("Create HintDb pure_gen.")
	o.p("")
	o.p("Module P.")
	for _, r := range g.recOrder {
		if g.records[r] != "" {
			o.p("%s", g.records[r])
		}
	}
	var vnames []string
	for n := range g.views {
		vnames = append(vnames, n)
	}
	sort.Strings(vnames)
	for _, n := range vnames {
		var fs []string
		for f := range g.views[n].fields {
			fs = append(fs, f)
		}
		sort.Strings(fs)
		var decl []string
		for _, f := range fs {
			decl = append(decl, fmt.Sprintf("%s_%s : %s", n, f, g.views[n].fields[f].coq()))
		}
		if len(decl) > 0 {
			o.p("(* view of %s.%s: exactly the fields read by the functions below *)", g.views[n].pp.importPath, n)
			o.p("Record %s := { %s }.", n, strings.Join(decl, "; "))
		}
	}
	for _, n := range g.order {
		o.p("")
		o.p("%s", g.done[n].text)
		if g.done[n].ok {
			o.p("#[global] Hint Unfold %s : pure_gen.", n)
		}
	}
	o.p("")
	o.p("End P.")
	writeIfChanged(filepath.Join(outDir, "Pure.v"), o.buf.Bytes())
}
