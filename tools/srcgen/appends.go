// appends.go: gen/AppendSites.v — every `append(x, …)` call (and, in a second table, every other
// statement that writes through a slice or map: `x[i] = v`, `x[i] op= v`, `copy(x, …)`,
// `delete(x, …)`) in the non-test, non-generated code of /repo, with the PROVENANCE CLASS of x.
//
// The class answers "whose backing array can this statement write?".  It is computed by a small
// analysis on the go/ast trees (no type information), per package:
//
//	fresh           nil / make / new / composite literal / []byte(string) / append to a fresh value,
//	                in a local variable of the same function
//	prefix_field    unexported struct field or package variable every write to which in the package is
//	                a `[]byte(<string constant expression>)` conversion (e.keyPrefix, roleKeyPrefix,
//	                noncePrefix).  cap == len for such a slice on this Go version; the harness
//	                verifies that by reflection at run time.
//	prefix_derived  result of append(s) to a prefix_field in the same call (possibly handed down through
//	                parameters of unexported functions ALL of whose call sites pass such a value):
//	                the full prefix slice itself or an array allocated by this call
//	decoded         field of an object allocated in this call and filled by <x>.Unmarshal(obj, …)
//	own_output      field of an object (VMOutput, LogEntry, OutputAccount, parsed result …) allocated in
//	                this call — directly, via an unexported helper's return value, or received as a
//	                parameter of an unexported function all of whose call sites pass such an object —
//	                such that every write to a field of that name in the package stores a safe class
//	private_state   unexported field of a struct declared in the package, every write to which in the
//	                package stores a fresh value or a slice derived from the field itself
//	input           reachable from a parameter / receiver of a function callable from outside
//	unknown         anything else.  The analysis never guesses: whatever it cannot follow is unknown.
//
// Flow-insensitive: a local variable has the join of all values assigned to it anywhere in the function.
// Objects are abstracted by their allocation site (composite literal, new, zero value); a field read
// x.F is the join, over the sites x may denote, of the literal's value for F and of every assignment
// `y.F = e` in the package whose y may denote that site (or is unknown).  Parameters of unexported,
// non-escaping functions are the join over all call sites in the package; results are the join over the
// return statements.  The equations are solved by Kleene iteration from bottom (so the recursive
// occurrence in x = append(x, …) contributes nothing), and bottom at the end is reported as unknown.
//
// Assumptions (trusted, stated in AppendObligations.v): code outside the analysed package (injected
// interfaces, other packages) neither stores into nor retains the objects passed to it, except that
// <x>.Unmarshal(obj, …) fills obj with freshly allocated data; no reflection/unsafe writes to unexported
// fields; objects reachable from a function's inputs are not the ones it allocates itself.
package main

import (
	"bytes"
	"fmt"
	"go/ast"
	"go/printer"
	"go/scanner"
	"go/token"
	"os"
	"path/filepath"
	"sort"
	"strings"
)

type aclass int

const (
	clBottom aclass = iota // no information yet (recursive occurrence); identity of join
	clFresh
	clPrefix
	clPrefixDerived
	clDecoded
	clOwn
	clPrivate
	clInput
	clUnknown
)

var aclassCoq = map[aclass]string{
	clBottom: "Unknown", clFresh: "Fresh", clPrefix: "PrefixField", clPrefixDerived: "PrefixDerived",
	clDecoded: "Decoded", clOwn: "OwnOutput", clPrivate: "PrivateState", clInput: "Input", clUnknown: "Unknown",
}

// allocation site: a composite literal together with the function it occurs in (its field values are
// classified there), or a new(T) / zero value / implicit sub-object (lit == nil: no field set)
type alit struct {
	lit *ast.CompositeLit
	fn  *afunc
	id  string
}

type aval struct {
	cls  aclass
	lits []*alit
}

func (v aval) has(l *alit) bool {
	for _, x := range v.lits {
		if x == l {
			return true
		}
	}
	return false
}

func sameVal(a, b aval) bool {
	if a.cls != b.cls || len(a.lits) != len(b.lits) {
		return false
	}
	for _, l := range a.lits {
		if !b.has(l) {
			return false
		}
	}
	return true
}

func joinClass(a, b aclass) aclass {
	if a == clBottom {
		return b
	}
	if b == clBottom {
		return a
	}
	if a == b {
		return a
	}
	if a == clUnknown || b == clUnknown {
		return clUnknown
	}
	if a == clInput || b == clInput {
		return clInput
	}
	if a > b {
		a, b = b, a
	}
	// a < b, both in fresh..private
	switch {
	case a == clFresh && (b == clOwn || b == clDecoded || b == clPrivate || b == clPrefixDerived):
		return b
	case a == clFresh && b == clPrefix:
		return clPrefixDerived
	case a == clPrefix && b == clPrefixDerived:
		return clPrefixDerived
	}
	return clUnknown
}

func joinVal(a, b aval) aval {
	r := aval{cls: joinClass(a.cls, b.cls), lits: append([]*alit{}, a.lits...)}
	for _, l := range b.lits {
		if !r.has(l) {
			r.lits = append(r.lits, l)
		}
	}
	return r
}

type adef struct {
	rhs    ast.Expr // value assigned (nil: zero value `var x T`)
	idx    int      // result index when rhs is a multi-value call, else -1
	param  int      // >= 0: parameter number (receiver = 0 for methods), rhs == nil
	opaque bool     // range variable, type switch binding, closure parameter, …: unknown
}

type afunc struct {
	pkg      *apkg
	decl     *ast.FuncDecl
	file     string
	name     string // "recvType.method" or "func"
	bare     string // method / function name
	recvType string
	isMethod bool
	open     bool // callable from outside the package (exported, or used as a value)
	params   []string
	variadic int // index of the variadic parameter or -1
	defs     map[string][]adef
	locals   map[string]bool // names declared in the function (parameters, :=, var, range, …)
	addrOf   map[string]bool // locals whose address is taken
	unmarsh  map[string]bool // locals passed as first argument to <x>.Unmarshal
}

type fieldWrite struct {
	rhs  ast.Expr
	base ast.Expr // y in `y.F = e` (nil for a composite literal key)
	fn   *afunc
	lit  bool // composite literal key (else assignment statement)
}

type acall struct {
	call *ast.CallExpr
	fn   *afunc // caller
}

type apkg struct {
	dir         string
	fset        *token.FileSet
	files       map[string]*ast.File
	fileNames   []string
	imports     map[string]map[string]bool // file -> imported package names
	funcs       []*afunc
	plain       map[string]*afunc   // package-level functions by name
	methods     map[string][]*afunc // methods by method name
	escaping    map[string]bool     // function / method names used as values
	pkgVars     map[string]ast.Expr
	varAssigned map[string]bool
	fieldWrites map[string][]fieldWrite
	ownFields   map[string]bool // field names declared in struct types of this package
	calls       map[string][]acall
	generated   map[string]int  // skipped generated file -> number of append calls
	memo        map[string]aval // values of this round
	assume      map[string]aval // values of the previous round (used on back edges)
	busy        map[string]bool
	sites       map[string]*alit

	pkgLevelAppends []pkgAppend
}

type pkgAppend struct {
	file string
	call *ast.CallExpr
}

// get: one equation of the system; back edges read the previous round's value
func (p *apkg) get(key string, compute func() aval) aval {
	if v, ok := p.memo[key]; ok {
		return v
	}
	if p.busy[key] {
		return p.assume[key]
	}
	p.busy[key] = true
	v := compute()
	delete(p.busy, key)
	p.memo[key] = v
	return v
}

func (p *apkg) site(id string, lit *ast.CompositeLit, fn *afunc) *alit {
	if s, ok := p.sites[id]; ok {
		return s
	}
	s := &alit{lit: lit, fn: fn, id: id}
	p.sites[id] = s
	return s
}

func isGenerated(f *ast.File) bool {
	for _, cg := range f.Comments {
		if cg.Pos() > f.Package {
			break
		}
		for _, c := range cg.List {
			if strings.Contains(c.Text, "Code generated") && strings.Contains(c.Text, "DO NOT EDIT") {
				return true
			}
		}
	}
	return false
}

func countAppends(n ast.Node) int {
	c := 0
	ast.Inspect(n, func(m ast.Node) bool {
		if call, ok := m.(*ast.CallExpr); ok {
			if id, ok := call.Fun.(*ast.Ident); ok && id.Name == "append" {
				c++
			}
		}
		return true
	})
	return c
}

func typeName(e ast.Expr) string {
	switch x := e.(type) {
	case *ast.StarExpr:
		return typeName(x.X)
	case *ast.Ident:
		return x.Name
	case *ast.IndexExpr:
		return typeName(x.X)
	}
	return "?"
}

func loadAPkg(repo, rel string) *apkg {
	pi := loadPkg(filepath.Join(repo, rel))
	p := &apkg{dir: rel, fset: pi.fset, files: map[string]*ast.File{}, imports: map[string]map[string]bool{},
		plain: map[string]*afunc{}, methods: map[string][]*afunc{}, escaping: map[string]bool{},
		pkgVars: map[string]ast.Expr{}, varAssigned: map[string]bool{}, fieldWrites: map[string][]fieldWrite{},
		ownFields: map[string]bool{}, calls: map[string][]acall{}, generated: map[string]int{},
		memo: map[string]aval{}, assume: map[string]aval{}, busy: map[string]bool{}, sites: map[string]*alit{}}
	for name, f := range pi.files {
		if isGenerated(f) {
			p.generated[name] = countAppends(f)
			continue
		}
		p.files[name] = f
		p.fileNames = append(p.fileNames, name)
	}
	sort.Strings(p.fileNames)
	for _, name := range p.fileNames {
		f := p.files[name]
		imps := map[string]bool{}
		for _, im := range f.Imports {
			path := strings.Trim(im.Path.Value, "\"")
			n := path[strings.LastIndex(path, "/")+1:]
			if im.Name != nil {
				n = im.Name.Name
			}
			imps[n] = true
		}
		p.imports[name] = imps
		for _, d := range f.Decls {
			switch x := d.(type) {
			case *ast.GenDecl:
				for _, sp := range x.Specs {
					switch s := sp.(type) {
					case *ast.ValueSpec:
						if x.Tok == token.VAR {
							for i, nm := range s.Names {
								if i < len(s.Values) {
									p.pkgVars[nm.Name] = s.Values[i]
								} else {
									p.pkgVars[nm.Name] = nil
								}
							}
						}
					case *ast.TypeSpec:
						ast.Inspect(s.Type, func(n ast.Node) bool {
							if st, ok := n.(*ast.StructType); ok {
								for _, fl := range st.Fields.List {
									for _, nm := range fl.Names {
										p.ownFields[nm.Name] = true
									}
								}
							}
							return true
						})
					}
				}
			case *ast.FuncDecl:
				if x.Body == nil {
					continue
				}
				fn := &afunc{pkg: p, decl: x, file: name, bare: x.Name.Name, name: x.Name.Name, variadic: -1,
					defs: map[string][]adef{}, locals: map[string]bool{}, addrOf: map[string]bool{}, unmarsh: map[string]bool{}}
				if x.Recv != nil && len(x.Recv.List) > 0 {
					fn.isMethod = true
					fn.recvType = typeName(x.Recv.List[0].Type)
					fn.name = fn.recvType + "." + x.Name.Name
					rn := "_"
					if len(x.Recv.List[0].Names) > 0 {
						rn = x.Recv.List[0].Names[0].Name
					}
					fn.params = append(fn.params, rn)
					p.methods[fn.bare] = append(p.methods[fn.bare], fn)
				} else {
					p.plain[fn.bare] = fn
				}
				for _, fl := range x.Type.Params.List {
					_, isVar := fl.Type.(*ast.Ellipsis)
					if len(fl.Names) == 0 {
						fn.params = append(fn.params, "_")
					}
					for _, nm := range fl.Names {
						if isVar {
							fn.variadic = len(fn.params)
						}
						fn.params = append(fn.params, nm.Name)
					}
				}
				for i, nm := range fn.params {
					if nm != "_" {
						fn.defs[nm] = append(fn.defs[nm], adef{param: i, idx: -1})
					}
				}
				if x.Type.Results != nil {
					for _, fl := range x.Type.Results.List {
						for _, nm := range fl.Names { // named results: start as zero values
							fn.defs[nm.Name] = append(fn.defs[nm.Name], adef{param: -1, idx: -1})
						}
					}
				}
				p.funcs = append(p.funcs, fn)
			}
		}
	}
	for _, fn := range p.funcs {
		p.scanFunc(fn)
	}
	// functions / methods used as values (not in call position) are callable by anybody
	for _, fn := range p.funcs {
		callFun := map[ast.Node]bool{}
		ast.Inspect(fn.decl.Body, func(n ast.Node) bool {
			if c, ok := n.(*ast.CallExpr); ok {
				callFun[c.Fun] = true
			}
			return true
		})
		ast.Inspect(fn.decl.Body, func(n ast.Node) bool {
			switch x := n.(type) {
			case *ast.SelectorExpr:
				if !callFun[x] {
					if _, ok := p.methods[x.Sel.Name]; ok {
						p.escaping[x.Sel.Name] = true
					}
				}
			case *ast.Ident:
				if !callFun[x] {
					if _, ok := p.plain[x.Name]; ok && !fn.locals[x.Name] {
						p.escaping["func:"+x.Name] = true
					}
				}
			}
			return true
		})
	}
	// anything mentioned outside function bodies (package-level initialisers): callable by anybody,
	// also when it is called there (we do not classify arguments of package-level calls)
	for _, name := range p.fileNames {
		for _, d := range p.files[name].Decls {
			gd, ok := d.(*ast.GenDecl)
			if !ok {
				continue
			}
			ast.Inspect(gd, func(n ast.Node) bool {
				switch x := n.(type) {
				case *ast.SelectorExpr:
					if _, ok := p.methods[x.Sel.Name]; ok {
						p.escaping[x.Sel.Name] = true
					}
				case *ast.Ident:
					if _, ok := p.plain[x.Name]; ok {
						p.escaping["func:"+x.Name] = true
					}
				case *ast.CallExpr:
					if id, ok := x.Fun.(*ast.Ident); ok && id.Name == "append" {
						p.pkgLevelAppends = append(p.pkgLevelAppends, pkgAppend{file: name, call: x})
					}
				}
				return true
			})
		}
	}
	// identifiers in selector position were also visited as *ast.Ident above (x.Sel); a field or method
	// selector named like a package function would make that function "escaping": conservative.
	for _, fn := range p.funcs {
		exported := ast.IsExported(fn.bare)
		if fn.isMethod {
			fn.open = exported || p.escaping[fn.bare]
		} else {
			fn.open = exported || p.escaping["func:"+fn.bare] || fn.bare == "init" || fn.bare == "main"
		}
	}
	return p
}

// scanFunc records the definitions of every local variable, field writes, call sites, address-of and
// Unmarshal uses of one function (closures included: their bodies belong to the enclosing function).
func (p *apkg) scanFunc(fn *afunc) {
	// names declared inside the function (scopes are ignored: one abstract variable per name)
	declare := func(e ast.Expr) {
		if id, ok := e.(*ast.Ident); ok && id.Name != "_" {
			fn.locals[id.Name] = true
		}
	}
	for _, nm := range fn.params {
		fn.locals[nm] = true
	}
	for nm := range fn.defs { // named results
		fn.locals[nm] = true
	}
	ast.Inspect(fn.decl.Body, func(n ast.Node) bool {
		switch x := n.(type) {
		case *ast.AssignStmt:
			if x.Tok == token.DEFINE {
				for _, l := range x.Lhs {
					declare(l)
				}
			}
		case *ast.ValueSpec:
			for _, nm := range x.Names {
				declare(nm)
			}
		case *ast.RangeStmt:
			if x.Tok == token.DEFINE {
				if x.Key != nil {
					declare(x.Key)
				}
				if x.Value != nil {
					declare(x.Value)
				}
			}
		case *ast.FuncLit:
			for _, fl := range x.Type.Params.List {
				for _, nm := range fl.Names {
					declare(nm)
				}
			}
			if x.Type.Results != nil {
				for _, fl := range x.Type.Results.List {
					for _, nm := range fl.Names {
						declare(nm)
					}
				}
			}
		case *ast.LabeledStmt:
		}
		return true
	})
	addDef := func(lhs ast.Expr, d adef) {
		switch x := lhs.(type) {
		case *ast.Ident:
			if x.Name == "_" {
				return
			}
			if !fn.locals[x.Name] {
				p.varAssigned[x.Name] = true // assignment to a package variable
				return
			}
			fn.defs[x.Name] = append(fn.defs[x.Name], d)
		case *ast.SelectorExpr:
			if d.opaque || d.rhs == nil || d.idx >= 0 {
				p.fieldWrites[x.Sel.Name] = append(p.fieldWrites[x.Sel.Name], fieldWrite{rhs: nil, base: x.X, fn: fn})
			} else {
				p.fieldWrites[x.Sel.Name] = append(p.fieldWrites[x.Sel.Name], fieldWrite{rhs: d.rhs, base: x.X, fn: fn})
			}
		case *ast.StarExpr:
			// *p = v: whatever p points to; if p is &local we have marked local as address-taken
		case *ast.ParenExpr:
		}
	}
	ast.Inspect(fn.decl.Body, func(n ast.Node) bool {
		switch x := n.(type) {
		case *ast.AssignStmt:
			if x.Tok != token.ASSIGN && x.Tok != token.DEFINE {
				return true // op-assignments do not change provenance
			}
			if len(x.Lhs) == len(x.Rhs) {
				for i := range x.Lhs {
					addDef(x.Lhs[i], adef{rhs: x.Rhs[i], idx: -1, param: -1})
				}
			} else if len(x.Rhs) == 1 {
				for i := range x.Lhs {
					switch x.Rhs[0].(type) {
					case *ast.CallExpr:
						addDef(x.Lhs[i], adef{rhs: x.Rhs[0], idx: i, param: -1})
					default: // v, ok := m[k] / x.(T) / <-ch
						addDef(x.Lhs[i], adef{opaque: true, idx: -1, param: -1})
					}
				}
			}
		case *ast.ValueSpec: // var x T = e / var x T
			for i, nm := range x.Names {
				switch {
				case len(x.Values) == len(x.Names):
					addDef(nm, adef{rhs: x.Values[i], idx: -1, param: -1})
				case len(x.Values) == 0:
					addDef(nm, adef{rhs: nil, idx: -1, param: -1})
				case len(x.Values) == 1:
					addDef(nm, adef{rhs: x.Values[0], idx: i, param: -1})
				}
			}
		case *ast.RangeStmt:
			if x.Key != nil {
				addDef(x.Key, adef{opaque: true, idx: -1, param: -1})
			}
			if x.Value != nil {
				addDef(x.Value, adef{opaque: true, idx: -1, param: -1})
			}
		case *ast.TypeSwitchStmt:
			if as, ok := x.Assign.(*ast.AssignStmt); ok {
				for _, l := range as.Lhs {
					addDef(l, adef{opaque: true, idx: -1, param: -1})
				}
			}
		case *ast.FuncLit:
			for _, fl := range x.Type.Params.List {
				for _, nm := range fl.Names {
					addDef(nm, adef{opaque: true, idx: -1, param: -1})
				}
			}
		case *ast.UnaryExpr:
			if x.Op == token.AND {
				if id, ok := x.X.(*ast.Ident); ok {
					fn.addrOf[id.Name] = true
				}
			}
		case *ast.CompositeLit:
			for _, el := range x.Elts {
				if kv, ok := el.(*ast.KeyValueExpr); ok {
					if id, ok := kv.Key.(*ast.Ident); ok {
						p.fieldWrites[id.Name] = append(p.fieldWrites[id.Name], fieldWrite{rhs: kv.Value, fn: fn, lit: true})
					}
				}
			}
		case *ast.CallExpr:
			switch f := x.Fun.(type) {
			case *ast.Ident:
				p.calls["func:"+f.Name] = append(p.calls["func:"+f.Name], acall{call: x, fn: fn})
			case *ast.SelectorExpr:
				p.calls[f.Sel.Name] = append(p.calls[f.Sel.Name], acall{call: x, fn: fn})
				if f.Sel.Name == "Unmarshal" && len(x.Args) >= 1 {
					if id, ok := x.Args[0].(*ast.Ident); ok {
						fn.unmarsh[id.Name] = true
					}
				}
			}
		}
		return true
	})
	// assignments to / address of package variables (a local of the same name does not excuse: scopes are ignored)
	ast.Inspect(fn.decl.Body, func(n ast.Node) bool {
		switch x := n.(type) {
		case *ast.AssignStmt:
			if x.Tok != token.DEFINE {
				for _, l := range x.Lhs {
					if id, ok := l.(*ast.Ident); ok {
						if _, isVar := p.pkgVars[id.Name]; isVar {
							p.varAssigned[id.Name] = true
						}
					}
				}
			}
		case *ast.UnaryExpr:
			if id, ok := x.X.(*ast.Ident); ok && x.Op == token.AND {
				if _, isVar := p.pkgVars[id.Name]; isVar {
					p.varAssigned[id.Name] = true
				}
			}
		}
		return true
	})
}

func (p *apkg) pos(n ast.Node) string { return fmt.Sprintf("%d", n.Pos()) }

// isConstBytes: []byte(<constant string expression>)
func (p *apkg) isConstBytes(e ast.Expr) bool {
	call, ok := e.(*ast.CallExpr)
	if !ok || len(call.Args) != 1 {
		return false
	}
	at, ok := call.Fun.(*ast.ArrayType)
	if !ok || at.Len != nil {
		return false
	}
	if id, ok := at.Elt.(*ast.Ident); !ok || id.Name != "byte" {
		return false
	}
	pi := &pkgInfo{consts: map[string]ast.Expr{}, iota: map[string]int{}}
	if p.dir == "." {
		pi = root
	} else {
		for k, v := range p.pkgConsts() {
			pi.consts[k] = v
		}
	}
	v, ok := eval(pi, call.Args[0], 0)
	return ok && v.kind == "str"
}

var pkgConstCache = map[*apkg]map[string]ast.Expr{}

func (p *apkg) pkgConsts() map[string]ast.Expr {
	if m, ok := pkgConstCache[p]; ok {
		return m
	}
	m := map[string]ast.Expr{}
	for _, name := range p.fileNames {
		for _, d := range p.files[name].Decls {
			gd, ok := d.(*ast.GenDecl)
			if !ok || gd.Tok != token.CONST {
				continue
			}
			for _, sp := range gd.Specs {
				vs := sp.(*ast.ValueSpec)
				for i, nm := range vs.Names {
					if i < len(vs.Values) {
						m[nm.Name] = vs.Values[i]
					}
				}
			}
		}
	}
	pkgConstCache[p] = m
	return m
}

// stringish: an expression that certainly has type string (so that []byte(e) copies)
func (p *apkg) stringish(fn *afunc, e ast.Expr) bool {
	switch x := e.(type) {
	case *ast.BasicLit:
		return x.Kind == token.STRING
	case *ast.BinaryExpr:
		return x.Op == token.ADD && (p.stringish(fn, x.X) || p.stringish(fn, x.Y))
	case *ast.ParenExpr:
		return p.stringish(fn, x.X)
	case *ast.CallExpr:
		if id, ok := x.Fun.(*ast.Ident); ok && id.Name == "string" && !fn.locals["string"] {
			return true
		}
		if se, ok := x.Fun.(*ast.SelectorExpr); ok {
			if id, ok := se.X.(*ast.Ident); ok && p.imports[fn.file][id.Name] {
				q := id.Name + "." + se.Sel.Name
				return q == "hex.EncodeToString" || q == "fmt.Sprintf" || q == "strings.Join"
			}
		}
	case *ast.Ident:
		// parameter declared with type string
		for _, fl := range fn.decl.Type.Params.List {
			if tid, ok := fl.Type.(*ast.Ident); ok && tid.Name == "string" {
				for _, nm := range fl.Names {
					if nm.Name == x.Name && len(fn.defs[x.Name]) == 1 {
						return true
					}
				}
			}
		}
		// local all of whose definitions are stringish
		ds := fn.defs[x.Name]
		if len(ds) == 0 {
			return false
		}
		for _, d := range ds {
			if d.rhs == nil || d.idx >= 0 || d.opaque || d.param >= 0 {
				return false
			}
			if id, ok := d.rhs.(*ast.Ident); ok && id.Name == x.Name {
				return false
			}
			if be, ok := d.rhs.(*ast.BinaryExpr); ok { // s = s + "…"
				if id, ok := be.X.(*ast.Ident); ok && id.Name == x.Name && be.Op == token.ADD {
					continue
				}
			}
			if !p.stringish(fn, d.rhs) {
				return false
			}
		}
		return true
	}
	return false
}

func appendResult(c aclass) aclass {
	if c == clPrefix {
		return clPrefixDerived
	}
	return c
}

// classify: provenance of the value of e in function fn
func (p *apkg) classify(fn *afunc, e ast.Expr) aval {
	switch x := e.(type) {
	case *ast.ParenExpr:
		return p.classify(fn, x.X)
	case *ast.CompositeLit:
		return aval{cls: clFresh, lits: []*alit{p.site("lit@"+p.pos(x), x, fn)}}
	case *ast.UnaryExpr:
		if x.Op == token.AND {
			if cl, ok := x.X.(*ast.CompositeLit); ok {
				return aval{cls: clFresh, lits: []*alit{p.site("lit@"+p.pos(cl), cl, fn)}}
			}
		}
		return aval{cls: clUnknown}
	case *ast.StarExpr:
		return p.classify(fn, x.X)
	case *ast.Ident:
		return p.classifyIdent(fn, x)
	case *ast.SelectorExpr:
		return p.classifySelector(fn, x)
	case *ast.SliceExpr:
		b := p.classify(fn, x.X)
		switch b.cls {
		case clFresh, clOwn, clDecoded, clPrivate, clInput, clBottom:
			return aval{cls: b.cls}
		}
		return aval{cls: clUnknown} // a sub-slice of a shared prefix has spare capacity: never safe
	case *ast.IndexExpr:
		b := p.classify(fn, x.X)
		if b.cls == clInput || b.cls == clBottom {
			return aval{cls: b.cls}
		}
		return aval{cls: clUnknown} // an element of an own container may still be somebody else's slice
	case *ast.CallExpr:
		return p.classifyCall(fn, x, -1)
	}
	return aval{cls: clUnknown}
}

func (p *apkg) classifyCall(fn *afunc, call *ast.CallExpr, idx int) aval {
	switch f := call.Fun.(type) {
	case *ast.ArrayType: // conversion []T(x)
		if len(call.Args) == 1 {
			if p.isConstBytes(call) || p.stringish(fn, call.Args[0]) {
				return aval{cls: clFresh}
			}
			return aval{cls: p.classify(fn, call.Args[0]).cls}
		}
	case *ast.Ident:
		if !fn.locals[f.Name] {
			switch f.Name {
			case "make", "new":
				if idx <= 0 {
					return aval{cls: clFresh, lits: []*alit{p.site("new@"+p.pos(call), nil, fn)}}
				}
			case "append":
				if len(call.Args) >= 1 && idx <= 0 {
					return aval{cls: appendResult(p.classify(fn, call.Args[0]).cls)}
				}
			}
			if callee, ok := p.plain[f.Name]; ok {
				return p.retClass(callee, idx)
			}
		}
	case *ast.SelectorExpr:
		// x.m(...): resolvable only for unexported method names (those can only be methods of this package)
		if id, ok := f.X.(*ast.Ident); ok && p.imports[fn.file][id.Name] && !fn.locals[id.Name] {
			return aval{cls: clUnknown} // function of another package
		}
		if ms, ok := p.methods[f.Sel.Name]; ok && !ast.IsExported(f.Sel.Name) {
			v := aval{cls: clBottom}
			for _, m := range ms {
				v = joinVal(v, p.retClass(m, idx))
			}
			return v
		}
	}
	return aval{cls: clUnknown}
}

// retClass: provenance of result number idx (idx < 0: the single result) of fn
func (p *apkg) retClass(fn *afunc, idx int) aval {
	if idx < 0 {
		idx = 0
	}
	return p.get(fmt.Sprintf("ret:%s:%s:%d", fn.file, fn.name, idx), func() aval {
		v := aval{cls: clBottom}
		nres := 0
		if fn.decl.Type.Results != nil {
			for _, fl := range fn.decl.Type.Results.List {
				if len(fl.Names) == 0 {
					nres++
				} else {
					nres += len(fl.Names)
				}
			}
		}
		seen := false
		ast.Inspect(fn.decl.Body, func(n ast.Node) bool {
			switch x := n.(type) {
			case *ast.FuncLit:
				return false
			case *ast.ReturnStmt:
				seen = true
				switch {
				case len(x.Results) == nres && idx < nres:
					v = joinVal(v, p.classify(fn, x.Results[idx]))
				case len(x.Results) == 1 && nres > 1:
					if c, ok := x.Results[0].(*ast.CallExpr); ok {
						v = joinVal(v, p.classifyCall(fn, c, idx))
					} else {
						v = joinVal(v, aval{cls: clUnknown})
					}
				default: // bare return with named results, or malformed
					v = joinVal(v, aval{cls: clUnknown})
				}
			}
			return true
		})
		if !seen {
			return aval{cls: clUnknown}
		}
		return v
	})
}

func (p *apkg) classifyIdent(fn *afunc, id *ast.Ident) aval {
	if id.Name == "nil" && !fn.locals["nil"] {
		return aval{cls: clFresh}
	}
	defs := fn.defs[id.Name]
	if !fn.locals[id.Name] {
		// package variable
		init, ok := p.pkgVars[id.Name]
		if ok && !p.varAssigned[id.Name] && init != nil && p.isConstBytes(init) {
			return aval{cls: clPrefix}
		}
		return aval{cls: clUnknown}
	}
	if fn.addrOf[id.Name] {
		return aval{cls: clUnknown}
	}
	return p.get(fmt.Sprintf("id:%s:%s:%s", fn.file, fn.name, id.Name), func() aval {
		v := aval{cls: clBottom}
		for i, d := range defs {
			switch {
			case d.opaque:
				v = joinVal(v, aval{cls: clUnknown})
			case d.param >= 0:
				v = joinVal(v, p.paramClass(fn, d.param))
			case d.rhs == nil:
				v = joinVal(v, aval{cls: clFresh, lits: []*alit{p.site(fmt.Sprintf("zero@%s:%s:%s:%d", fn.file, fn.name, id.Name, i), nil, fn)}})
			case d.idx >= 0:
				v = joinVal(v, p.classifyCall(fn, d.rhs.(*ast.CallExpr), d.idx))
			default:
				v = joinVal(v, p.classify(fn, d.rhs))
			}
		}
		if fn.unmarsh[id.Name] && v.cls == clFresh {
			v.cls = clDecoded
		}
		return v
	})
}

// paramClass: provenance of parameter number i of fn (0 = receiver for methods)
func (p *apkg) paramClass(fn *afunc, i int) aval {
	if fn.open {
		return aval{cls: clInput}
	}
	if i == fn.variadic {
		return aval{cls: clUnknown}
	}
	return p.get(fmt.Sprintf("param:%s:%s:%d", fn.file, fn.name, i), func() aval {
		var sites []acall
		if fn.isMethod {
			sites = p.calls[fn.bare]
		} else {
			for _, c := range p.calls["func:"+fn.bare] {
				if !c.fn.locals[fn.bare] { // not shadowed by a local of the same name
					sites = append(sites, c)
				}
			}
		}
		if len(sites) == 0 {
			return aval{cls: clUnknown} // no caller seen: nothing can be said
		}
		v := aval{cls: clBottom}
		for _, s := range sites {
			var arg ast.Expr
			ai := i
			if fn.isMethod {
				if i == 0 {
					arg = s.call.Fun.(*ast.SelectorExpr).X
				}
				ai = i - 1
			}
			if arg == nil {
				if s.call.Ellipsis != token.NoPos || ai >= len(s.call.Args) || (fn.variadic >= 0 && i >= fn.variadic) {
					v = joinVal(v, aval{cls: clUnknown})
					continue
				}
				np := len(fn.params)
				if fn.isMethod {
					np--
				}
				if len(s.call.Args) != np && fn.variadic < 0 { // f(g()) with a multi-value g
					v = joinVal(v, aval{cls: clUnknown})
					continue
				}
				arg = s.call.Args[ai]
			}
			v = joinVal(v, p.classify(s.fn, arg))
		}
		return v
	})
}

// privateField: the two rules that depend only on the field's name (unexported field of a struct of this
// package, so that every write to it is in this package and has been recorded)
func (p *apkg) privateField(f string) aval {
	writes := p.fieldWrites[f]
	if !(p.ownFields[f] && !ast.IsExported(f) && len(writes) > 0) {
		return aval{cls: clUnknown}
	}
	// prefix rule: every write is []byte(<const string>)
	all := true
	for _, w := range writes {
		if w.rhs == nil || !p.isConstBytes(w.rhs) {
			all = false
			break
		}
	}
	if all {
		return aval{cls: clPrefix}
	}
	// private-state rule: every write stores a fresh value or something derived from the field itself
	return p.get("private:"+f, func() aval {
		v := aval{cls: clBottom}
		for _, w := range writes {
			if w.rhs == nil {
				return aval{cls: clUnknown}
			}
			c := p.classify(w.fn, w.rhs).cls
			switch c {
			case clBottom:
			case clFresh, clPrivate:
				v.cls = clPrivate
			default:
				return aval{cls: clUnknown}
			}
		}
		return v
	})
}

// loc: abstract content of field f of the objects allocated at site s
func (p *apkg) loc(s *alit, f string) aval {
	return p.get("loc:"+s.id+"."+f, func() aval {
		v := aval{cls: clBottom}
		found := false
		if s.lit != nil {
			for _, el := range s.lit.Elts {
				kv, ok := el.(*ast.KeyValueExpr)
				if !ok {
					return aval{cls: clUnknown} // positional literal
				}
				if id, ok := kv.Key.(*ast.Ident); ok && id.Name == f {
					found = true
					v = joinVal(v, p.classify(s.fn, kv.Value))
				}
			}
		}
		if !found { // zero value; as an object it is the implicit sub-object of s
			v = joinVal(v, aval{cls: clFresh, lits: []*alit{p.site("sub("+s.id+")."+f, nil, s.fn)}})
		}
		// assignments `y.F = e` anywhere in the package whose y may denote this site (or is not understood)
		for _, w := range p.fieldWrites[f] {
			if w.lit {
				continue
			}
			b := p.classify(w.fn, w.base)
			switch {
			case b.has(s), b.cls == clUnknown, b.cls == clPrivate, b.cls == clPrefix, b.cls == clPrefixDerived:
				if w.rhs == nil {
					return aval{cls: clUnknown}
				}
				v = joinVal(v, p.classify(w.fn, w.rhs))
			}
		}
		return v
	})
}

func (p *apkg) classifySelector(fn *afunc, se *ast.SelectorExpr) aval {
	if id, ok := se.X.(*ast.Ident); ok && p.imports[fn.file][id.Name] && !fn.locals[id.Name] {
		return aval{cls: clUnknown} // pkg.Var of another package
	}
	f := se.Sel.Name
	if pv := p.privateField(f); pv.cls != clUnknown {
		return pv
	}
	base := p.classify(fn, se.X)
	switch base.cls {
	case clInput, clBottom:
		return aval{cls: base.cls}
	case clFresh, clOwn, clDecoded:
	default:
		return aval{cls: clUnknown}
	}
	if len(base.lits) == 0 {
		return aval{cls: clUnknown} // an object of this call whose allocation we do not see
	}
	v := aval{cls: clBottom}
	for _, l := range base.lits {
		v = joinVal(v, p.loc(l, f))
	}
	switch {
	case base.cls == clDecoded && (v.cls == clFresh || v.cls == clDecoded):
		v.cls = clDecoded
	case v.cls == clFresh:
		v.cls = clOwn
	}
	return v
}

func nodeText(fset *token.FileSet, n ast.Node) string {
	var b bytes.Buffer
	_ = printer.Fprint(&b, fset, n)
	s := strings.Join(strings.Fields(b.String()), " ")
	s = strings.ReplaceAll(s, "\"", "'")
	return s
}

type asite struct {
	file, fn, kind, text string
	ord                  int
	back                 bool // the result is assigned back to x itself: x = append(x, …)
	cls                  aclass
}

// collectSites walks every function in source order; the classification equations are solved by
// iterating whole rounds until the values read on back edges no longer change
func (p *apkg) collectSites() (appends []asite, writes []asite) {
	for round := 0; ; round++ {
		p.memo = map[string]aval{}
		p.busy = map[string]bool{}
		appends, writes = p.collectOnce()
		changed := false
		for k, v := range p.memo {
			nv := joinVal(p.assume[k], v)
			if !sameVal(nv, p.assume[k]) {
				p.assume[k] = nv
				changed = true
			}
		}
		if !changed {
			break
		}
		if round > 100 { // cannot happen (finite lattice); refuse rather than report something unsolved
			for i := range appends {
				appends[i].cls = clUnknown
			}
			for i := range writes {
				writes[i].cls = clUnknown
			}
			break
		}
	}
	return
}

func (p *apkg) collectOnce() (appends []asite, writes []asite) {
	for i, a := range p.pkgLevelAppends { // not analysed: never safe
		rel := a.file
		if p.dir != "." {
			rel = p.dir + "/" + a.file
		}
		txt := "?"
		if len(a.call.Args) > 0 {
			txt = nodeText(p.fset, a.call.Args[0])
		}
		appends = append(appends, asite{file: rel, fn: "<package level>", kind: "append", text: txt, ord: i, cls: clUnknown})
	}
	for _, fn := range p.funcs {
		ordA, ordW := 0, 0
		rel := fn.file
		if p.dir != "." {
			rel = p.dir + "/" + fn.file
		}
		shadow := func(name string) bool { return fn.locals[name] }
		back := map[*ast.CallExpr]bool{}
		ast.Inspect(fn.decl.Body, func(n ast.Node) bool {
			if as, ok := n.(*ast.AssignStmt); ok && len(as.Lhs) == 1 && len(as.Rhs) == 1 {
				if c, ok := as.Rhs[0].(*ast.CallExpr); ok && len(c.Args) > 0 {
					if id, ok := c.Fun.(*ast.Ident); ok && id.Name == "append" &&
						nodeText(p.fset, as.Lhs[0]) == nodeText(p.fset, c.Args[0]) {
						back[c] = true
					}
				}
			}
			return true
		})
		// a field of the method's own receiver is written "recv.<field>" whatever the receiver is called in this method
		recvName := ""
		if fn.decl.Recv != nil && len(fn.decl.Recv.List) == 1 && len(fn.decl.Recv.List[0].Names) == 1 {
			recvName = fn.decl.Recv.List[0].Names[0].Name
		}
		siteText := func(e ast.Expr) string {
			if se, ok := e.(*ast.SelectorExpr); ok && recvName != "" && recvName != "_" {
				if id, ok := se.X.(*ast.Ident); ok && id.Name == recvName {
					return "recv." + se.Sel.Name
				}
			}
			return nodeText(p.fset, e)
		}
		cls := func(e ast.Expr) aclass {
			c := p.classify(fn, e).cls
			if c == clBottom {
				c = clUnknown
			}
			return c
		}
		ast.Inspect(fn.decl.Body, func(n ast.Node) bool {
			switch x := n.(type) {
			case *ast.CallExpr:
				id, ok := x.Fun.(*ast.Ident)
				if !ok || shadow(id.Name) || len(x.Args) == 0 {
					return true
				}
				switch id.Name {
				case "append":
					appends = append(appends, asite{file: rel, fn: fn.name, kind: "append", text: siteText(x.Args[0]), ord: ordA, back: back[x], cls: cls(x.Args[0])})
					ordA++
				case "copy", "delete":
					writes = append(writes, asite{file: rel, fn: fn.name, kind: id.Name, text: siteText(x.Args[0]), ord: ordW, cls: cls(x.Args[0])})
					ordW++
				}
			case *ast.AssignStmt:
				for _, l := range x.Lhs {
					if ie, ok := l.(*ast.IndexExpr); ok {
						writes = append(writes, asite{file: rel, fn: fn.name, kind: "index", text: siteText(ie.X), ord: ordW, cls: cls(ie.X)})
						ordW++
					}
				}
			case *ast.IncDecStmt:
				if ie, ok := x.X.(*ast.IndexExpr); ok {
					writes = append(writes, asite{file: rel, fn: fn.name, kind: "index", text: siteText(ie.X), ord: ordW, cls: cls(ie.X)})
					ordW++
				}
			}
			return true
		})
	}
	return
}

// countAppendTokens: occurrences of the identifier `append` immediately followed by `(` in one file (comments and strings are
// skipped by the scanner)
func countAppendTokens(path string) int {
	src, err := os.ReadFile(path)
	if err != nil {
		return 0
	}
	fs := token.NewFileSet()
	f := fs.AddFile(path, fs.Base(), len(src))
	var sc scanner.Scanner
	sc.Init(f, src, nil, 0)
	n := 0
	prevAppend := false
	for {
		_, tok, lit := sc.Scan()
		if tok == token.EOF {
			break
		}
		if prevAppend && tok == token.LPAREN {
			n++
		}
		prevAppend = tok == token.IDENT && lit == "append"
	}
	return n
}

func genAppends(repo, outDir string) {
	// every directory with non-test Go files, except test doubles (mock/) and the repo's own check dir
	var dirs []string
	_ = filepath.Walk(repo, func(path string, info os.FileInfo, err error) error {
		if err != nil || !info.IsDir() {
			return nil
		}
		base := filepath.Base(path)
		if path != repo && (strings.HasPrefix(base, ".") || base == "mock" || base == "testdata" || base == "vendor") {
			return filepath.SkipDir
		}
		ms, _ := filepath.Glob(filepath.Join(path, "*.go"))
		for _, m := range ms {
			if !strings.HasSuffix(m, "_test.go") {
				rel, _ := filepath.Rel(repo, path)
				dirs = append(dirs, rel)
				break
			}
		}
		return nil
	})
	sort.Strings(dirs)
	var appends, writes []asite
	var skipped []string
	tokenCount := 0 // independent, token-level count of `append (` in the analysed files (completeness of the table)
	for _, d := range dirs {
		p := loadAPkg(repo, d)
		ms, _ := filepath.Glob(filepath.Join(repo, d, "*.go"))
		for _, m := range ms {
			if strings.HasSuffix(m, "_test.go") {
				continue
			}
			if _, gen := p.generated[filepath.Base(m)]; gen {
				continue
			}
			tokenCount += countAppendTokens(m)
		}
		a, w := p.collectSites()
		appends = append(appends, a...)
		writes = append(writes, w...)
		var gens []string
		for g := range p.generated {
			gens = append(gens, g)
		}
		sort.Strings(gens)
		for _, g := range gens {
			rel := g
			if d != "." {
				rel = d + "/" + g
			}
			skipped = append(skipped, fmt.Sprintf("  (\"%s\", %d)", rel, p.generated[g]))
		}
	}
	o := &outFile{}
	o.p("%s", header)
	o.p("(* Whose backing array can an `append(x, …)` write?  One entry per call, in the non-test,")
	o.p("   non-generated Go files of the repository (test doubles in mock/ excluded):")
	o.p("   file, enclosing function, ordinal of the call within that function (source order, 0-based),")
	o.p("   source text of x, provenance class of x computed by tools/srcgen/appends.go. *)")
	o.p("Inductive provenance := Fresh | PrefixField | PrefixDerived | Decoded | OwnOutput | PrivateState | Input | Unknown.")
	o.p("(* as_back: the call has the form `x = append(x, …)` (the result replaces x itself) *)")
	o.p("Record append_site := { as_file : string; as_func : string; as_ord : nat; as_arg : string; as_back : bool; as_class : provenance }.")
	emit := func(name string, l []asite, withKind bool) {
		if withKind {
			o.p("Definition %s : list (string * append_site) := [", name)
		} else {
			o.p("Definition %s : list append_site := [", name)
		}
		for i, s := range l {
			sep := ";"
			if i == len(l)-1 {
				sep = ""
			}
			rec := fmt.Sprintf("{| as_file := \"%s\"; as_func := \"%s\"; as_ord := %d; as_arg := \"%s\"; as_back := %v; as_class := %s |}",
				s.file, s.fn, s.ord, s.text, s.back, aclassCoq[s.cls])
			if withKind {
				o.p("  (\"%s\", %s)%s", s.kind, rec, sep)
			} else {
				o.p("  %s%s", rec, sep)
			}
		}
		o.p("].")
	}
	emit("append_sites", appends, false)
	o.p("(* number of `append (` token pairs in the same files, counted with go/scanner independently of the analysis above *)")
	o.p("Definition append_token_count : nat := %d.", tokenCount)
	o.p("")
	o.p("(* The other statements that write through a slice or a map: x[i] = v, x[i] op= v, x[i]++ (\"index\"),")
	o.p("   copy(x, …), delete(x, …); same classification of x; ordinals count these statements per function. *)")
	emit("write_sites", writes, true)
	o.p("")
	o.p("(* generated Go files (\"Code generated … DO NOT EDIT\") are not analysed: (file, number of append calls) *)")
	o.p("Definition skipped_generated_files : list (string * nat) := [")
	o.p("%s", strings.Join(skipped, ";\n"))
	o.p("].")
	writeIfChanged(filepath.Join(outDir, "AppendSites.v"), o.buf.Bytes())
}
