package main

func genAppends(repo, outDir string) {}
