#!/usr/bin/env python3
"""Flags every Variable/Hypothesis/Context/Let declared OUTSIDE a Section (those would be axioms/parameters)."""
import re, sys, os
bad = 0
root = sys.argv[1]
for dp, _, fs in os.walk(root):
    for f in fs:
        if not f.endswith(".v") or f.startswith("cases_"):
            continue
        p = os.path.join(dp, f)
        txt = open(p).read()
        txt = re.sub(r"\(\*.*?\*\)", lambda m: "\n" * m.group(0).count("\n"), txt, flags=re.S)  # strip comments (non-nested approx.)
        depth = 0
        for n, line in enumerate(txt.split("\n"), 1):
            s = line.strip()
            if re.match(r"(Section|Module)\s+\w+", s) and not re.match(r"Module\s+\w+\s*:=", s):
                depth += 1
            elif re.match(r"End\s+\w+\s*\.", s):
                depth = max(0, depth - 1)
            elif depth == 0 and re.match(r"(Variable|Variables|Hypothesis|Hypotheses|Context)\b", s):
                print("%s:%d: %s" % (os.path.relpath(p, root), n, s[:100]))
                bad += 1
print("declarations outside a Section:", bad)
sys.exit(1 if bad else 0)
