#!/usr/bin/env python3
"""Regenerates the per-property part of DESIGN.md (between the markers <!-- S6-BEGIN --> and <!-- S6-END -->)
from tools/manifest_checks.json, the theorem names in coq/Properties and seeded/*/meta.json."""
import glob, json, os, re
V = os.path.dirname(os.path.dirname(os.path.abspath(__file__)))
props = [json.loads(l) for l in open(os.path.join(V, "properties.jsonl"))]
claimed = json.load(open(os.path.join(V, "tools", "manifest_checks.json")))
seeded = {}
for mp in sorted(glob.glob(os.path.join(V, "seeded", "C*-*", "meta.json"))):
    m = json.load(open(mp))
    seeded.setdefault(m["property"], []).append((os.path.basename(os.path.dirname(mp)), m))
out = []
for p in props:
    pid = p["id"]
    c = claimed.get(pid)
    out.append("### %s — %s\n" % (pid, p["title"]))
    if not c:
        out.append("Not claimed.\n")
        continue
    files = []
    if os.path.exists(os.path.join(V, "coq", "Properties", pid + ".v")):
        files.append("Properties/%s.v" % pid)
    files += sorted("Properties/" + os.path.basename(f) for f in glob.glob(os.path.join(V, "coq", "Properties", pid + "_*.v")))
    names = []
    for f in files:
        for l in open(os.path.join(V, "coq", f)):
            mm = re.match(r"\s*(Theorem|Corollary)\s+([A-Za-z0-9_']+)", l)
            if mm:
                names.append(mm.group(2))
    out.append("* **Files**: %s; harness `harness/c%s.go`.\n" % (", ".join("`coq/%s`" % f for f in files), pid[1:]))
    out.append("* **Theorems** (%d; examples and pins not listed): %s\n" % (len(names), ", ".join("`%s`" % n for n in names)))
    out.append("* **What is proved and how it is tied** (= the level text of MANIFEST.json): %s\n" % c["text"])
    out.append("* **Trusted / not covered**: %s\n" % c["note"])
    out.append("* **Technique**: %s\n" % c["technique"])
    if pid in seeded:
        rows = []
        for name, m in seeded[pid]:
            e = (m.get("checks_run") or {}).get(pid, {})
            rows.append("`%s` (%s) — %s%s" % (name, m.get("summary", "")[:160].replace("\n", " "),
                        "detected" if e.get("detected") else "NOT detected",
                        (": " + str(e.get("signature"))) if e.get("signature") else ""))
        out.append("* **Seeded changes** (written blind by sub-agents, confirmed, §10): " + "; ".join(rows) + "\n")
    out.append("")
text = "\n".join(out)
p = os.path.join(V, "DESIGN.md")
s = open(p).read()
a, b = s.index("<!-- S6-BEGIN -->"), s.index("<!-- S6-END -->")
s = s[:a] + "<!-- S6-BEGIN -->\n" + text + "\n" + s[b:]
open(p, "w").write(s)
print("section 6 regenerated:", len(text), "chars")
