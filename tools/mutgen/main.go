// mutgen: systematic single-point mutants of /repo's non-test Go sources, used to measure what the checks detect
// (tools/mutscreen).  It is NOT part of any check.  Usage: mutgen <repo> <outdir> [file-filter-regexp]
// Writes <outdir>/<n>.json {file, line, op, before, after} and <outdir>/<n>.go (the whole mutated file).
package main

import (
	"encoding/json"
	"fmt"
	"go/ast"
	"go/parser"
	"go/token"
	"os"
	"path/filepath"
	"regexp"
	"sort"
	"strconv"
	"strings"
)

type mutant struct {
	File   string `json:"file"`
	Line   int    `json:"line"`
	Op     string `json:"op"`
	Before string `json:"before"`
	After  string `json:"after"`
	Func   string `json:"func"`
	start  int
	end    int
}

var binSwap = map[token.Token][]string{
	token.LSS:  {"<=", ">"},
	token.LEQ:  {"<", ">="},
	token.GTR:  {">=", "<"},
	token.GEQ:  {">", "<="},
	token.EQL:  {"!="},
	token.NEQ:  {"=="},
	token.LAND: {"||"},
	token.LOR:  {"&&"},
	token.ADD:  {"-"},
	token.SUB:  {"+"},
	token.MUL:  {"+"},
	token.AND:  {"|"},
	token.OR:   {"&"},
}

func main() {
	repo, out := os.Args[1], os.Args[2]
	var filt *regexp.Regexp
	if len(os.Args) > 3 {
		filt = regexp.MustCompile(os.Args[3])
	}
	os.MkdirAll(out, 0o755)
	var files []string
	filepath.Walk(repo, func(p string, fi os.FileInfo, err error) error {
		if err != nil {
			return nil
		}
		if fi.IsDir() && (fi.Name() == ".git" || fi.Name() == "mock" || fi.Name() == "vendor") {
			return filepath.SkipDir
		}
		if strings.HasSuffix(p, ".go") && !strings.HasSuffix(p, "_test.go") {
			rel, _ := filepath.Rel(repo, p)
			if filt == nil || filt.MatchString(rel) {
				files = append(files, rel)
			}
		}
		return nil
	})
	sort.Strings(files)
	n := 0
	for _, rel := range files {
		src, _ := os.ReadFile(filepath.Join(repo, rel))
		fset := token.NewFileSet()
		f, err := parser.ParseFile(fset, rel, src, 0)
		if err != nil {
			continue
		}
		var ms []mutant
		off := func(p token.Pos) int { return fset.Position(p).Offset }
		add := func(op string, s, e token.Pos, after string, fn string) {
			a, b := off(s), off(e)
			ms = append(ms, mutant{File: rel, Line: fset.Position(s).Line, Op: op, Before: string(src[a:b]), After: after, Func: fn, start: a, end: b})
		}
		for _, d := range f.Decls {
			fd, ok := d.(*ast.FuncDecl)
			if !ok || fd.Body == nil {
				continue
			}
			fn := fd.Name.Name
			if fd.Recv != nil && len(fd.Recv.List) > 0 {
				fn = strings.TrimPrefix(string(src[off(fd.Recv.List[0].Type.Pos()):off(fd.Recv.List[0].Type.End())]), "*") + "." + fn
			}
			if fd.Name.Name == "IsInterfaceNil" || fd.Name.Name == "String" || fd.Name.Name == "GoString" || fd.Name.Name == "Descriptor" {
				continue
			}
			ast.Inspect(fd.Body, func(nd ast.Node) bool {
				switch x := nd.(type) {
				case *ast.BinaryExpr:
					for _, r := range binSwap[x.Op] {
						add("binop", x.OpPos, x.OpPos+token.Pos(len(x.Op.String())), r, fn)
					}
				case *ast.BasicLit:
					if x.Kind == token.INT {
						v, err := strconv.ParseInt(x.Value, 0, 64)
						if err == nil {
							add("int+1", x.Pos(), x.End(), strconv.FormatInt(v+1, 10), fn)
							if v > 0 {
								add("int-1", x.Pos(), x.End(), strconv.FormatInt(v-1, 10), fn)
							}
						}
					}
				case *ast.Ident:
					if x.Name == "true" {
						add("bool", x.Pos(), x.End(), "false", fn)
					} else if x.Name == "false" {
						add("bool", x.Pos(), x.End(), "true", fn)
					}
				case *ast.UnaryExpr:
					if x.Op == token.NOT {
						add("drop-not", x.Pos(), x.End(), "("+string(src[off(x.X.Pos()):off(x.X.End())])+")", fn)
					}
				case *ast.IfStmt:
					c := string(src[off(x.Cond.Pos()):off(x.Cond.End())])
					add("if-false", x.Cond.Pos(), x.Cond.End(), "false && ("+c+")", fn)
					if _, isBin := x.Cond.(*ast.BinaryExpr); !isBin {
						add("if-neg", x.Cond.Pos(), x.Cond.End(), "!("+c+")", fn)
					}
				case *ast.ExprStmt:
					if _, ok := x.X.(*ast.CallExpr); ok {
						add("drop-call", x.Pos(), x.End(), "", fn)
					}
				case *ast.AssignStmt:
					if x.Tok == token.ASSIGN || x.Tok == token.ADD_ASSIGN || x.Tok == token.SUB_ASSIGN || x.Tok == token.OR_ASSIGN {
						add("drop-assign", x.Pos(), x.End(), "", fn)
					}
					if x.Tok == token.ADD_ASSIGN {
						add("assignop", x.TokPos, x.TokPos+2, "-=", fn)
					}
					if x.Tok == token.SUB_ASSIGN {
						add("assignop", x.TokPos, x.TokPos+2, "+=", fn)
					}
				case *ast.CallExpr:
					// swap adjacent arguments that are textually plausible to have the same type
					for i := 0; i+1 < len(x.Args); i++ {
						a := string(src[off(x.Args[i].Pos()):off(x.Args[i].End())])
						b := string(src[off(x.Args[i+1].Pos()):off(x.Args[i+1].End())])
						if a != b {
							add("swap-args", x.Args[i].Pos(), x.Args[i+1].End(), b+", "+a, fn)
						}
					}
				case *ast.ReturnStmt:
					// return nil, err -> return nil, nil is covered by callers; here: early `return` of an error replaced by nil error
					if len(x.Results) >= 1 {
						last := x.Results[len(x.Results)-1]
						if id, ok := last.(*ast.Ident); ok && (id.Name == "err" || strings.HasPrefix(id.Name, "Err")) {
							_ = id
						}
					}
				case *ast.IndexExpr:
					_ = x
				}
				return true
			})
		}
		for _, m := range ms {
			n++
			mutated := string(src[:m.start]) + m.After + string(src[m.end:])
			os.WriteFile(filepath.Join(out, fmt.Sprintf("%05d.go", n)), []byte(mutated), 0o644)
			j, _ := json.Marshal(m)
			os.WriteFile(filepath.Join(out, fmt.Sprintf("%05d.json", n)), j, 0o644)
		}
	}
	fmt.Println("mutants:", n)
}
