module verif/mutgen

go 1.17
