#!/usr/bin/env python3
"""Regenerates MANIFEST.json from tools/manifest_checks.json (claimed checks) and properties.jsonl."""
import json, os
V = os.path.dirname(os.path.dirname(os.path.abspath(__file__)))
props = [json.loads(l) for l in open(os.path.join(V, "properties.jsonl"))]
claimed = json.load(open(os.path.join(V, "tools", "manifest_checks.json")))
m = {
 "version": 1,
 "setup_cmd": "./setup.sh",
 "hooks": {
  "guard": "verif",
  "enable": "go build -tags verif (harness builds /repo with the tag on; no source hooks are needed: all collaborators are injected interfaces)",
  "baseline_off_cmd": "cd /repo && GOFLAGS=-mod=mod GOPROXY=off GOSUMDB=off go test -vet=off -count=1 ./...",
  "source_commits": [],
  "add_only": True
 },
 "engines": [
  {"name": "coq-model", "path": "coq/", "serves_properties": sorted(claimed.keys()),
   "kind_free_text": "Coq 8.16.1 development: executable Gallina model of the repository's logic, theorems per property in coq/Properties, tables regenerated from /repo by tools/srcgen"},
  {"name": "go-harness", "path": "harness/", "serves_properties": sorted(claimed.keys()),
   "kind_free_text": "Go harness around the real code: generators, direct property monitors, Coq case-file writer for the correspondence check"}
 ],
 "checks": [],
 "notes": "Technique: machine-checked proof in Coq; the model is tied to /repo on every run by regenerated tables (tools/srcgen) and a correspondence run (implementation vs. vm_compute of the model on the same cases). See DESIGN.md.",
 "not_applicable": []
}
for p in props:
    i = p["id"]
    if i in claimed:
        c = claimed[i]
        m["checks"].append({
            "property_id": i,
            "quick_cmd": "./check %s --tier quick" % i,
            "thorough_cmd": "./check %s --tier thorough" % i,
            "evidence_file": "/verif/evidence/%s.json" % i,
            "replay_cmd_template": "./check %s --replay {path}" % i,
            "engine": "coq-model",
            "level_claimed": {"category": "proof", "text": c["text"], "design_ref": c.get("design_ref", "DESIGN.md section 6 (%s)" % i)},
            "level_note": c["note"],
            "technique": c.get("technique", "machine-checked proof in Coq over an executable model + correspondence check against the implementation"),
        })
    else:
        m["not_applicable"].append({"property_id": i, "reason": "not yet built (check under construction; the technique applies, see DESIGN.md section 6)"})
json.dump(m, open(os.path.join(V, "MANIFEST.json"), "w"), indent=1)
print("claimed:", sorted(claimed.keys()))
